#!/bin/bash
# Offline, idempotent.  The framework is pure Python on top of /venv (which
# already holds the repository's own dependencies); nothing is installed.
HERE="$(cd "$(dirname "${BASH_SOURCE[0]}")" && pwd)"
cd "$HERE" || exit 1
mkdir -p evidence replays
PYTHONPATH="/repo:$HERE" /venv/bin/python -c "import importlib.util, infretis, vf.main; print('setup ok', infretis.__file__)"
