#!/venv/bin/python
"""Regenerate MANIFEST.json from the check modules (keeps it schema-valid)."""
import importlib.util  # noqa
import importlib
import json
import os
import sys

HERE = os.path.dirname(os.path.dirname(os.path.abspath(__file__)))
sys.path[:0] = ["/repo", HERE]

TECH = {
    "C01": "statistical runtime monitor: replica z-test of crossing probabilities from the data files of real scheduler runs against the closed-form lattice answer",
    "C02": "runtime postcondition on REPEX_state.inf_retis / .prob against an exact permanent oracle (riding on scheduler runs + direct drive, exhaustive 0/1 family)",
    "C03": "shadow in-flight table monitor on prep_md_items/treat_output under a completion-order adversary + exhaustive abstract-state exploration of the real object",
    "C04": "online conservation monitor on traj_data around treat_output + offline exactly-once checker over data file and restart file",
    "C05": "invariant hooks on pick/sort/treat (logical livelock detection), restart-load probe in a fresh process",
    "C06": "differential byte-exact monitor (straight run vs restart chains, kills at step boundaries)",
    "C07": "identity log of per-job generators vs independent SeedSequence children, global-RNG purity hash, execute-twice monitor",
    "C08": "fault enumeration: audit-hook effect recorder, os._exit before every effect, torn files, post-crash probe + exactly-once checker",
    "C09": "membership predicate monitor on move results, snapshot/compare of old paths, scripted-RNG threshold probing",
    "C10": "reference-oracle monitor (independent segment decomposition) + exact selection-law probing with a scripted generator",
    "C11": "frame-identity and reversibility monitors on real zero swaps, scripted-draw threshold probing for QuanTIS",
    "C12": "recomputation monitor on propagate() of every engine against stub MD programs with seeded write schedules; process-table and poll-clock monitors",
    "C13": "fault enumeration of byte cut points against prefix oracle for the three on-the-fly readers",
    "C14": "round-trip monitor + audit-hook deletion monitor against the live set and the on-disk restart file",
    "C15": "law monitors on generated paths (paste/reverse/copy/classification)",
    "C16": "file/system snapshot monitors + moment tests of regenerated velocities against independently typed constants",
    "C17": "event counters on the scheduler rig + exactly-once log checker for the real aiorunner under stress",
    "C18": "independent invalid-class predicate vs check_config; initialisation probe in a fresh process; restart fixed point",
    "C19": "round-trip and idempotence monitors with independent writers/parsers",
    "C20": "metamorphic monitors (translation, image shift, rotation, velocity reversal, box form, mutation snapshots)",
}


ENGINE = {"C01": "scheduler-rig", "C02": "direct-drive", "C03": "scheduler-rig",
          "C04": "scheduler-rig", "C05": "scheduler-rig", "C06": "scheduler-rig",
          "C07": "scheduler-rig", "C08": "crash-enumerator", "C09": "scheduler-rig",
          "C11": "scheduler-rig", "C12": "stub-md-programs",
          "C13": "cut-point-driver", "C14": "scheduler-rig", "C17": "scheduler-rig"}


def main():
    props = [json.loads(l) for l in open(os.path.join(HERE, "properties.jsonl"))]
    man = {
        "version": 1,
        "setup_cmd": "./setup.sh",
        "hooks": {
            "guard": "INFRETIS_VERIF",
            "enable": "no source hooks are needed: every observation point is wrapped from the harness (checks export INFRETIS_VERIF=1 and import /repo's working tree through PYTHONPATH=/repo)",
            "baseline_off_cmd": "cd /repo && env -u INFRETIS_VERIF /venv/bin/python -m pytest -ra -q -p no:cacheprovider --timeout=900 --continue-on-collection-errors",
            "source_commits": [],
            "add_only": True,
        },
        "engines": [
            {"name": "scheduler-rig", "path": "vf/rig_sched.py", "serves_properties": ["C01", "C02", "C03", "C04", "C05", "C06", "C07", "C09", "C11", "C14", "C17", "C18"], "kind_free_text": "real scheduler()/REPEX_state in-process with a completion-order adversary, kills at and inside steps, restarts, and monitors (vf/monitors.py)"},
            {"name": "exhaustive-explorer", "path": "vf/rig_explore.py", "serves_properties": ["C02", "C03", "C05"], "kind_free_text": "snapshot/restore exploration of the real REPEX_state to a fixed point over abstract states (small systems)"},
            {"name": "crash-enumerator", "path": "vf/fsfault.py", "serves_properties": ["C08"], "kind_free_text": "sys.addaudithook effect recorder; crash state = copy of the tree before each effect; torn files; post-crash probe vf/crash_probe.py"},
            {"name": "stub-md-programs", "path": "vf/stubs", "serves_properties": ["C07", "C12"], "kind_free_text": "fake lmp/cp2k/gmx executables with data-driven write schedules, baton-controlled from the engines' own sleep points (vf/baton.py)"},
            {"name": "cut-point-driver", "path": "vf/checks/c13.py", "serves_properties": ["C13"], "kind_free_text": "grows files along byte cut schedules and polls the real on-the-fly readers"},
            {"name": "runner-stress", "path": "vf/runner_stress.py", "serves_properties": ["C17"], "kind_free_text": "real aiorunner + forked pool in a host process, exactly-once log"},
            {"name": "direct-drive", "path": "vf/checks", "serves_properties": ["C02", "C09", "C10", "C11", "C14", "C15", "C16", "C18", "C19", "C20"], "kind_free_text": "generated inputs into the real functions with independent reference oracles (vf/oracles)"},
        ],
        "checks": [],
        "not_applicable": [],
        "notes": "All checks: ./check <ID> --tier quick|thorough (VERIF_SEED/VERIF_TIER honoured). Exit 0 held, 1 VIOLATION, 2 INCONCLUSIVE. Known findings: known_findings.json.",
    }
    for p in props:
        pid = p["id"]
        modf = os.path.join(HERE, "vf", "checks", pid.lower() + ".py")
        if not os.path.isfile(modf):
            man["not_applicable"].append({"property_id": pid, "reason": "check not built yet (work in progress; planned monitor in DESIGN.md section 3)"})
            continue
        mod = importlib.import_module("vf.checks." + pid.lower())
        man["checks"].append({
            "property_id": pid,
            "quick_cmd": f"./check {pid} --tier quick",
            "thorough_cmd": f"./check {pid} --tier thorough",
            "evidence_file": f"evidence/{pid}.json",
            "replay_cmd_template": f"./check {pid} --replay {{path}}",
            "engine": ENGINE.get(pid, "direct-drive"),
            "level_claimed": {
                "category": mod.LEVEL,
                "text": getattr(mod, "LEVEL_TEXT", "held on the executions explored: " + mod.RULE)[:1500],
                "design_ref": "DESIGN.md section 3, " + pid,
            },
            "level_note": "; ".join(getattr(mod, "ASSUMPTIONS", [])) or "real code from /repo's working tree; plug-in engines / stub MD programs as stated",
            "technique": TECH[pid],
        })
    with open(os.path.join(HERE, "MANIFEST.json"), "w") as f:
        json.dump(man, f, indent=1)
    print(len(man["checks"]), "checks,", len(man["not_applicable"]), "not applicable")


if __name__ == "__main__":
    main()
