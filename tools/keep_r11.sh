#!/bin/bash
# usage: tools/keep_r11.sh C10 [C07 ...] : confirm round-11 deliveries in /tmp/wt/r11_<P>, then run the property's own quick check against the change
cd /verif
for P in "$@"; do
  d=/tmp/wt/r11_$P
  cp $d/patch.diff /tmp/wt/r11_$P.delivered.diff
  tools/keep_seed.sh ${P}u $P /tmp/wt/r11_$P.delivered.diff $d/demo_$P.py $d/meta.json 2>&1 | grep -E "^seed|KEPT"
  [ -d seeded/${P}u ] && tools/try_patch.sh seeded/${P}u/patch.diff $P
done
