#!/bin/bash
# usage: tools/keep_r2.sh C10 [C07 ...]  : confirm round-2 deliveries in /tmp/wt/r2_<P>
cd /verif
for P in "$@"; do
  d=/tmp/wt/r2_$P
  [ -f $d/patch.diff ] && tools/keep_seed.sh ${P}c $P $d/patch.diff $d/demo_$P.py $d/meta.json 2>&1 | grep -E "^seed|KEPT"
  [ -f $d/patch2.diff ] && tools/keep_seed.sh ${P}d $P $d/patch2.diff $d/demo2_$P.py $d/meta2.json 2>&1 | grep -E "^seed|KEPT"
done
