#!/bin/bash
# usage: tools/keep_round.sh <round-dir-prefix> <id-suffix> C10 [C07 ...]
#   e.g. tools/keep_round.sh r12 v C07 C08 : confirm the deliveries in /tmp/wt/r12_<P> as seeded/<P>v,
#   then run the property's own quick check against the change (scratch copy of /repo)
cd /verif
R=$1; SUF=$2; shift 2
for P in "$@"; do
  d=/tmp/wt/${R}_$P
  [ -f $d/patch.diff ] || { echo "$P: no delivery"; continue; }
  cp $d/patch.diff /tmp/wt/${R}_$P.delivered.diff
  tools/keep_seed.sh ${P}$SUF $P /tmp/wt/${R}_$P.delivered.diff $d/demo_$P.py $d/meta.json 2>&1 | grep -E "^seed|KEPT"
  [ -d seeded/${P}$SUF ] && tools/try_patch.sh seeded/${P}$SUF/patch.diff $P
done
