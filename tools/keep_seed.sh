#!/bin/bash
# usage: tools/keep_seed.sh <seed-id> <property> <patch> <demo> <meta.json>
# Confirms a seeded change in a scratch worktree of /repo HEAD: it applies,
# the package imports, the unedited test suite still passes (76, the always
# failing test_restart_multiple_w deselected), the demo fails with the change
# and passes without it.  Then stores it under seeded/<seed-id>/.
set -u
ID="$1"; PROP="$2"; PATCH="$3"; DEMO="$4"; META="$5"
mkdir -p /tmp/wt
WT=/tmp/wt/verify-$ID
git -C /repo worktree remove --force "$WT" 2>/dev/null
git -C /repo worktree add -q --detach "$WT" HEAD || exit 2
cd "$WT" || exit 2
if ! git apply "$PATCH" 2>/dev/null; then
  patch -p1 -s --fuzz=3 < "$PATCH" || { echo "does not apply"; git -C /repo worktree remove --force "$WT"; exit 3; }
fi
find . -name "*.orig" -delete
git diff -- infretis > /tmp/wt/$ID.patch
cp "$DEMO" "$WT/demo_seed.py"; cp "$DEMO" "$WT/$(basename "$DEMO")"
export PYTHONPATH="$WT"
imp=$(/venv/bin/python -c "import importlib.util, infretis; print(infretis.__file__)")
/venv/bin/python demo_seed.py > /tmp/wt/$ID.demo_with.txt 2>&1; rc_with=$?
tests=$(/venv/bin/python -m pytest -q -p no:cacheprovider -p no:randomly --timeout=900 --deselect test/simulations/test_run_infretis.py::test_restart_multiple_w 2>&1 | tail -1)
git apply -R /tmp/wt/$ID.patch
/venv/bin/python demo_seed.py > /tmp/wt/$ID.demo_without.txt 2>&1; rc_without=$?
echo "seed $ID: import=$imp demo_with=$rc_with demo_without=$rc_without tests_with: $tests"
cd /verif
if [ "$rc_with" != "0" ] && [ "$rc_without" = "0" ] && echo "$tests" | grep -q "76 passed" && ! echo "$tests" | grep -q failed; then
  mkdir -p seeded/$ID
  cp /tmp/wt/$ID.patch seeded/$ID/patch.diff
  cp "$DEMO" seeded/$ID/demo.py
  /venv/bin/python - "$META" "$ID" "$PROP" "$rc_with" "$rc_without" "$tests" <<'PY'
import json, sys
meta, sid, prop, rw, rwo, tests = sys.argv[1:7]
try:
    m = json.load(open(meta))
except Exception:
    m = {}
out = {"id": sid, "property": prop, "summary": m.get("summary"), "needs": m.get("needs"),
       "author_ran": m.get("ran"),
       "confirmed": {"worktree": "scratch worktree of /repo HEAD (removed afterwards)",
                     "demo_exit_with_change": int(rw), "demo_exit_without_change": int(rwo),
                     "test_suite_with_change": tests,
                     "command": "tools/keep_seed.sh"}}
json.dump(out, open(f"/verif/seeded/{sid}/meta.json", "w"), indent=1)
PY
  echo "KEPT seeded/$ID"
else
  echo "NOT KEPT (see /tmp/wt/$ID.demo_with.txt)"
fi
git -C /repo worktree remove --force "$WT"
