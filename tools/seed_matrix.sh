#!/bin/bash
# Runs every seeded change against the check of its own property (quick tier,
# on a scratch copy of /repo) and writes seeded/RESULTS.txt.
cd /verif
: > seeded/RESULTS.txt
for d in seeded/*/; do
  id=$(basename $d); prop=$(python3 -c "import json;print(json.load(open('$d/meta.json'))['property'])")
  out=$(tools/try_patch.sh $d/patch.diff $prop 2>&1)
  r=$(echo "$out" | grep -E "rc=|APPLY" | head -1 | sed 's/.*rc=/rc=/')
  mech=$(echo "$out" | grep -o '"mech": "[^"]*"' | sort | uniq -c | sort -rn | head -2 | tr -s ' ' | tr '\n' ';')
  echo "$id $prop $r $mech" | tee -a seeded/RESULTS.txt
done
