#!/bin/bash
# Runs every seeded change against the check of its own property (quick tier,
# on a scratch copy of /repo) and writes seeded/RESULTS.txt.
# usage: tools/seed_matrix.sh [parallel-jobs]   (default 4)
cd /verif
P=${1:-4}
one() {
  d=$1
  id=$(basename $d); prop=$(python3 -c "import json;print(json.load(open('$d/meta.json'))['property'])")
  out=$(tools/try_patch.sh $d/patch.diff $prop 2>&1)
  r=$(echo "$out" | grep -E "rc=|APPLY" | head -1 | sed 's/.*rc=/rc=/')
  mech=$(echo "$out" | grep -o '"mech": "[^"]*"' | sort | uniq -c | sort -rn | head -2 | tr -s ' ' | tr '\n' ';')
  echo "$id $prop $r $mech"
}
export -f one
ls -d seeded/*/ | xargs -P "$P" -I{} bash -c 'one {}' | sort > seeded/RESULTS.txt.new
mv seeded/RESULTS.txt.new seeded/RESULTS.txt
cat seeded/RESULTS.txt
