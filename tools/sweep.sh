#!/bin/bash
# usage: [CHECKS="C03 C04"] tools/sweep.sh <tier> <seed> [<seed> ...] : every (or the listed) check on the unchanged tree
cd "$(dirname "$(realpath "$0")")/.." || exit 2
tier=$1; shift
for sd in "$@"; do
  for c in ${CHECKS:-C01 C02 C03 C04 C05 C06 C07 C08 C09 C10 C11 C12 C13 C14 C15 C16 C17 C18 C19 C20}; do
    t0=$(date +%s)
    out=$(VERIF_SEED=$sd VERIF_NOEVIDENCE=1 ./check $c --tier $tier 2>&1); rc=$?
    t1=$(date +%s)
    echo "seed=$sd $c rc=$rc $((t1-t0))s $(echo "$out" | grep -E '^(VIOLATION|INCONCLUSIVE|KNOWN)' | cut -c1-150 | sort | uniq -c | head -3 | tr '\n' '|')"
    if [ $rc -ne 0 ]; then echo "$out" | grep -E "violation:|note:" | cut -c1-600 | head -4; fi
  done
done
