#!/bin/bash
# usage: tools/try_patch.sh <patch.diff> <CHECK> [<CHECK> ...]   (quick tier)
# Applies a seeded change to /repo, runs the checks, and undoes it.
P="$(realpath "$1")"; shift
cd /repo || exit 2
if [ -n "$(git status --porcelain -- infretis)" ]; then echo "repo dirty"; exit 2; fi
if ! git apply "$P" 2>/dev/null; then
  if ! patch -p1 -s --fuzz=3 < "$P"; then echo "PATCH DOES NOT APPLY: $P"; git checkout -- .; exit 3; fi
fi
for c in "$@"; do
  out=$(cd /verif && VERIF_NOEVIDENCE=1 ./check "$c" --tier "${TIER:-quick}" 2>&1)
  rc=$?
  echo "== $c on $(basename $(dirname $P))/$(basename $P): rc=$rc"
  echo "$out" | grep -E "^(VIOLATION|KNOWN-FINDING|INCONCLUSIVE)" | cut -c1-160 | sort | uniq -c | head -5
  echo "$out" | grep -E "violation:" | cut -c1-260 | head -3
done
git checkout -- . ; find /repo -name "*.orig" -o -name "*.rej" | xargs -r rm -f
rm -f /verif/replays/*.json
