#!/bin/bash
# usage: tools/try_patch.sh <patch.diff> <CHECK> [<CHECK> ...]   (TIER=quick|thorough)
# Runs the checks against a scratch copy of /repo's working tree with the
# seeded change applied (VERIF_REPO override), so /repo itself is never
# touched and concurrent runs are not disturbed.  Equivalent to
# `git -C /repo apply <file>; ./check ...; git -C /repo checkout -- .`.
P="$(realpath "$1")"; shift
S=/dev/shm/seedrepo-$$
rm -rf "$S"; mkdir -p "$S"
(cd /repo && git ls-files -z | xargs -0 cp --parents -t "$S") || exit 2
cd "$S" || exit 2
if ! patch -p1 -s --fuzz=3 < "$P"; then echo "PATCH DOES NOT APPLY: $P"; rm -rf "$S"; exit 3; fi
for c in "$@"; do
  out=$(cd /verif && VERIF_REPO="$S" VERIF_NOEVIDENCE=1 ./check "$c" --tier "${TIER:-quick}" 2>&1)
  rc=$?
  echo "== $c on $(basename $(dirname $P))/$(basename $P): rc=$rc"
  echo "$out" | grep -E "^(VIOLATION|KNOWN-FINDING|INCONCLUSIVE)" | cut -c1-160 | sort | uniq -c | head -5
  echo "$out" | grep -E "violation:" | cut -c1-260 | head -3
done
rm -rf "$S"
rm -f /verif/replays/*.json
