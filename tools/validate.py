"""Validate MANIFEST.json and evidence/*.json against the schemas (python3-vt)."""
import json, sys, glob, jsonschema
man = json.load(open('/verif/MANIFEST.json'))
jsonschema.validate(man, json.load(open('/root/.vp/MANIFEST.schema.json')))
es = json.load(open('/root/.vp/EVIDENCE.schema.json'))
ok = True
for c in man['checks']:
    f = '/verif/' + c['evidence_file']
    try:
        ev = json.load(open(f))
        jsonschema.validate(ev, es)
        assert ev['level'] == c['level_claimed']['category'], 'level mismatch'
        print('ok ', f, ev['coverage']['evaluations'], ev['coverage']['distinct_nontrivial'], ev['wall_s'])
    except Exception as e:
        ok = False
        print('BAD', f, str(e)[:300])
ids = {c['property_id'] for c in man['checks']} | {n['property_id'] for n in man.get('not_applicable', [])}
props = {json.loads(l)['id'] for l in open('/verif/properties.jsonl')}
assert ids == props, (ids ^ props)
print('manifest valid;', 'evidence ok' if ok else 'EVIDENCE PROBLEMS')
