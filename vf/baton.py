"""Harness side of the stub MD programs' baton (DESIGN 2.4).

A ``Baton`` belongs to ONE propagate call.  It

* replaces the engine module's ``sleep`` name by ``tick``: in baton mode a tick
  hands the stub one token over a FIFO and waits until the stub has performed
  its next scheduled write (ack) or has died; in free mode it really sleeps a
  very short time.  Every tick is a *poll* of the logical clock;
* wraps ``subprocess`` inside the engine module so that every ``Popen`` the
  engine creates is captured (the real Popen object is returned unchanged);
* decides "neither returned nor raised within K polls after the program has
  exited" by counting polls: ``tick`` raises ``BatonHang`` (a BaseException,
  so no ``except Exception`` of the engine can swallow it) on poll K+1 after
  the runner process was first seen dead.  Death is observed with
  ``waitid(WNOWAIT)``, which does not reap the child, so the engine's own
  poll()/wait() bookkeeping is not disturbed;
* a wall-clock watchdog only ever produces ``BatonWatchdog`` = inconclusive.

``ReaderTap`` observes (and, on request, preempts) the engines' on-the-fly
text readers: it records how many frames each poll returned and can let the
writer perform its next step right after the reader consumed a line that has
no newline yet (the file grows while it is being read).
"""
import os
import select
import signal
import struct
import time


class BatonHang(BaseException):
    pass


class BatonWatchdog(BaseException):
    pass


class _SubprocessProxy:
    def __init__(self, real, sink):
        self._real, self._sink = real, sink

    def __getattr__(self, name):
        return getattr(self._real, name)

    def Popen(self, *a, **kw):
        proc = self._real.Popen(*a, **kw)
        self._sink.append(proc)
        return proc


def pid_alive(pid):
    """True while the child has not terminated (does not reap it)."""
    try:
        r = os.waitid(os.P_PID, pid, os.WEXITED | os.WNOHANG | os.WNOWAIT)
        return r is None
    except ChildProcessError:
        return False  # already reaped by the engine


def group_survivors(pgids, settle=5.0):
    """Live (non-zombie) processes whose process group is one of pgids.
    A process that has just been signalled may need a moment to disappear:
    re-scan for at most `settle` seconds (a process that was never signalled
    lives for tens of seconds, so the answer does not depend on the wait)."""
    pgids = {int(p) for p in pgids}
    t0 = time.time()
    while True:
        found = []
        for ent in os.listdir("/proc"):
            if not ent.isdigit():
                continue
            try:
                with open(f"/proc/{ent}/stat") as f:
                    st = f.read()
            except OSError:
                continue
            rest = st[st.rfind(")") + 2:].split()
            if rest[0] != "Z" and int(rest[2]) in pgids:
                found.append((int(ent), rest[0], int(rest[2])))
        if not found or time.time() - t0 > settle:
            return found
        time.sleep(0.01)


class _GrowingFile:
    """File proxy used by ReaderTap: right after the reader consumed a line
    that has no newline yet, the writer performs its next step - the
    interleaving 'the file grows while it is being read', made deterministic."""

    def __init__(self, fh, tap):
        self._fh, self._tap = fh, tap

    def readline(self, *a):
        line = self._fh.readline(*a)
        if line and not line.endswith("\n") and self._tap.grow > 0:
            self._tap.grow -= 1
            self._tap.grown += 1
            self._tap.baton.tick()
        return line

    def __getattr__(self, name):
        return getattr(self._fh, name)


class ReaderTap:
    """Observes how many frames each poll of the on-the-fly reader returned;
    with grow > 0 (baton mode) also lets the file grow during a read."""

    def __init__(self, baton=None, grow=0):
        from infretis.classes.engines import engineparts as ep
        self.ep, self.calls = ep, []
        self.baton, self.grow, self.grown = baton, grow, 0
        self.orig = ep.ReadAndProcessOnTheFly.read_and_process_content
        tap = self

        def wrapped(rd):
            if tap.grow > 0 and not getattr(rd, "_vf_grow", False):
                fn = rd.processing_function

                def pf(reader, _fn=fn):
                    reader.file_object = _GrowingFile(reader.file_object, tap)
                    return _fn(reader)
                rd.processing_function, rd._vf_grow = pf, True
            res = tap.orig(rd)
            nfr = len(res[0]) if isinstance(res, tuple) else len(res)
            tap.calls.append((os.path.basename(str(rd.file_path)), nfr))
            return res
        ep.ReadAndProcessOnTheFly.read_and_process_content = wrapped

    def close(self):
        self.ep.ReadAndProcessOnTheFly.read_and_process_content = self.orig


class Baton:
    def __init__(self, run_dir, mode="baton", K=20, free_sleep=0.0004,
                 max_polls=200000, wall=240.0):
        self.run_dir, self.mode, self.K = run_dir, mode, K
        self.free_sleep, self.max_polls, self.wall = free_sleep, max_polls, wall
        os.makedirs(run_dir, exist_ok=True)
        self.runner_procs, self.aux_procs = [], []
        self.polls = self.polls_after_exit = 0
        self.log = []            # written position reported after each poll
        self.exit_poll = None
        self._patched = []
        self.tok = self.ack = None
        if mode == "baton":
            for nm in ("tok", "ack"):
                os.mkfifo(os.path.join(run_dir, nm))
            self.tok = os.open(os.path.join(run_dir, "tok"), os.O_RDWR)
            self.ack = os.open(os.path.join(run_dir, "ack"), os.O_RDWR)

    # -- installation ------------------------------------------------------
    def install(self, runner_module, aux_modules=()):
        """Patch sleep/subprocess of the module that runs the MD program and
        subprocess of modules that run blocking helper commands."""
        import subprocess as real
        self._patched.append((runner_module, "sleep", runner_module.sleep))
        runner_module.sleep = self.tick
        self._patched.append((runner_module, "subprocess",
                              runner_module.subprocess))
        runner_module.subprocess = _SubprocessProxy(real, self.runner_procs)
        for m in aux_modules:
            self._patched.append((m, "subprocess", m.subprocess))
            m.subprocess = _SubprocessProxy(real, self.aux_procs)
        self._old_alarm = signal.signal(signal.SIGALRM, self._on_alarm)
        signal.setitimer(signal.ITIMER_REAL, self.wall)

    def uninstall(self):
        signal.setitimer(signal.ITIMER_REAL, 0)
        signal.signal(signal.SIGALRM, self._old_alarm)
        for mod, name, old in reversed(self._patched):
            setattr(mod, name, old)
        self._patched = []
        for fd in (self.tok, self.ack):
            if fd is not None:
                os.close(fd)
        self.tok = self.ack = None

    def _on_alarm(self, *_):
        raise BatonWatchdog(f"wall-clock watchdog ({self.wall}s)")

    # -- the logical clock ---------------------------------------------------
    def runner(self):
        return self.runner_procs[-1] if self.runner_procs else None

    def tick(self, _seconds=None):
        self.polls += 1
        if self.polls > self.max_polls:
            raise BatonWatchdog(f"more than {self.max_polls} polls")
        proc = self.runner()
        if proc is None:
            return
        if not pid_alive(proc.pid):
            if self.exit_poll is None:
                self.exit_poll = self.polls
            self.polls_after_exit += 1
            if self.polls_after_exit > self.K:
                raise BatonHang(
                    f"{self.polls_after_exit} polls after the program exited")
            return
        if self.mode != "baton":
            time.sleep(self.free_sleep)
            return
        os.write(self.tok, b"t")
        while True:
            r, _, _ = select.select([self.ack], [], [], 0.002)
            if r:
                pos, _step = struct.unpack("<dq", os.read(self.ack, 16))
                self.log.append(pos)
                return
            if not pid_alive(proc.pid):
                self.log.append(None)     # died while performing this step
                return

    # -- after propagate -----------------------------------------------------
    def process_report(self):
        """State of every captured process right now (call before cleanup)."""
        rep = {"running": [], "survivors": []}
        for p in self.runner_procs + self.aux_procs:
            if p.returncode is None and pid_alive(p.pid):
                rep["running"].append(p.pid)
        rep["survivors"] = group_survivors(
            [p.pid for p in self.runner_procs])
        rep["returncodes"] = [p.returncode for p in self.runner_procs]
        return rep

    def cleanup(self):
        for p in self.runner_procs:
            try:
                os.killpg(p.pid, signal.SIGKILL)
            except OSError:
                pass
        for p in self.runner_procs + self.aux_procs:
            try:
                p.wait(timeout=10)
            except Exception:
                pass
