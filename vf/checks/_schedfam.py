"""Shared workload generator for the scheduler-rig checks (C03, C04, C05, ...)."""
import hashlib
import os
import random
import shutil

POLICIES = ["random", "fifo", "lifo", "starve", "starve_pin"]


def gen_spec(rng, tier, nmin=2, nmax=7, steps=(40, 160), restarts=True,
             allow_kill=True):
    n = rng.randint(nmin, nmax)
    if n > 2 and rng.random() < 0.5:
        workers = rng.randint(2, n - 1) if n > 2 else 1
    else:
        workers = rng.randint(1, n - 1)
    moves = ["sh"] + [rng.choice(["sh", "wf"]) for _ in range(n - 1)]
    if rng.random() < 0.25:
        moves = ["sh"] * n
    cap = None
    wf_idx = [i for i, m in enumerate(moves) if m == "wf"]
    if wf_idx and rng.random() < 0.4:
        # interfaces are k+0.5; ensemble i (>=1) has interface index i-1
        lo = max(wf_idx)  # first interface index strictly above all wf
        if lo <= n - 1:
            cap = rng.randint(lo, n - 1) + 0.5
    nsteps = rng.randint(*steps)
    spec = {
        "n_intf": n, "moves": moves, "workers": workers, "cap": cap,
        "seed": rng.randrange(2 ** 31), "steps": nsteps,
        "policy": rng.choice(POLICIES), "adv_seed": rng.randrange(2 ** 31),
        "maxlength": rng.choice([2000, 2000, 60, 25]),
        "n_jumps": rng.choice([1, 2, 2, 4]),
        "delete_old": rng.random() < 0.5,
        "wall": rng.choice([-2, -3, -4]),
    }
    if spec["delete_old"] and rng.random() < 0.5:
        spec["delete_old_all"] = True
    if rng.random() < 0.2:
        spec["engine0"] = True
    if rng.random() < 0.15:
        spec["lm1"] = -1.5
        if rng.random() < 0.5:
            # the whole order-parameter axis shifted by 1.5: lambda_minus_one
            # is exactly 0.0 (legal, but falsy)
            spec["shift"] = 1.5
    if rng.random() < 0.15:
        spec["allowmaxlength"] = True
    if cap is not None and "shift" not in spec and rng.random() < 0.25:
        # the axis shifted so that the configured interface_cap is exactly
        # 0.0 (legal, but falsy)
        spec["shift"] = -cap
    if "wf" not in moves and rng.random() < 0.4:
        # frames two or three lattice steps apart: trajectories jump over
        # interfaces.  Only with shooting everywhere: a trajectory that jumps
        # over a whole wire-fencing band [lambda_i, cap) has zero weight there
        # but not above, a non-staircase weight row which inf_retis /
        # sort_trajstate do not support (known finding C05-F25, probed
        # directly in C05 instead of poisoning every history here).
        spec["subcycles"] = rng.choice([2, 3])
    if restarts and rng.random() < 0.4:
        segs = []
        cur = 0
        nseg = rng.randint(2, 3)
        cuts = sorted(rng.sample(range(max(workers, 2), nsteps - 1),
                                 min(nseg - 1, max(1, nsteps - 4))))
        for c in cuts:
            if allow_kill and rng.random() < 0.5:
                # killed: steps stays at the final target, process dies after
                # (c - cur) completions of this segment
                segs.append({"steps": nsteps, "kill_after": c - cur})
            else:
                # legs shorter than the worker count are allowed: the
                # program must then start only as many jobs as steps are left
                segs.append({"steps": c})
            cur = c
        segs.append({"steps": nsteps})
        spec["segments"] = segs
    return spec


def plan_jobs(tier, seed, tag, quick_jobs=32, thorough_jobs=480,
              cases_per_job=6, **kw):
    rng = random.Random(f"{tag}-{seed}")
    njobs = quick_jobs if tier == "quick" else thorough_jobs
    jobs = []
    for j in range(njobs):
        jobs.append({"kind": "rig", "hashseed": rng.randrange(1000),
                     "specs": [gen_spec(rng, tier, **kw)
                               for _ in range(cases_per_job)]})
    return jobs


def history_sig(rig, spec, extra=""):
    h = hashlib.sha1()
    h.update(repr((spec["n_intf"], spec["moves"], spec["workers"],
                   spec.get("cap"), spec["policy"])).encode())
    h.update(repr(rig.adversary.order).encode())
    h.update(repr(sorted(rig.events.items())).encode())
    h.update(extra.encode())
    return h.hexdigest()[:16]


def case_dir(scratch, i):
    d = os.path.join(scratch, f"case{i}")
    if os.path.isdir(d):
        shutil.rmtree(d)
    return d


def brief(spec):
    keys = ["n_intf", "moves", "workers", "cap", "seed", "steps", "policy",
            "segments", "delete_old", "delete_old_all", "engine0", "lm1",
            "maxlength", "subcycles", "shift"]
    return {k: spec[k] for k in keys if k in spec}


def generic_work(job, scratch, make_monitors, nontrivial, finish=None):
    """Run every spec of a job with fresh monitors; collect a result dict.

    make_monitors(spec, cdir) -> list of monitors
    nontrivial(rig, spec, monitors) -> bool
    finish(rig, spec, monitors, cdir, info) -> optional extra string for sig
    """
    from vf.sched_case import run_case
    res = {"n": 0, "sigs": [], "events": {}, "violations": [], "samples": [],
           "reached": {}, "notes": []}
    for i, spec in enumerate(job["specs"]):
        cdir = case_dir(scratch, i)
        mons = make_monitors(spec, cdir)
        rig, info = run_case(spec, cdir, mons)
        extra = ""
        if finish is not None:
            extra = finish(rig, spec, mons, cdir, info) or ""
        res["n"] += 1
        for k, v in rig.events.items():
            res["events"][k] = res["events"].get(k, 0) + v
        for k, v in rig.reached.items():
            res["reached"][k] = res["reached"].get(k, 0) + v
        for v in rig.violations:
            v["spec"] = spec
            res["violations"].append(v)
        if nontrivial(rig, spec, mons):
            res["sigs"].append(history_sig(rig, spec, extra))
        if len(res["samples"]) < 2:
            res["samples"].append({"spec": brief(spec),
                                   "outcomes": info["outcomes"],
                                   "completion_order": info["order"][:30],
                                   "events": dict(rig.events)})
        shutil.rmtree(cdir, ignore_errors=True)
    return res
