"""C01 - sampling is unbiased: exact crossing probabilities are reproduced."""
import importlib.util  # noqa: F401
import math
import os
import random
import shutil

from vf.checks import _schedfam as F

PROPERTY = "C01"
LEVEL = "exploration"
RULE = ("statistical acceptance test on the lattice model (symmetric random "
        "walk run through the engine plug-in interface, interfaces at k+1/2, "
        "exact P(lambda_{k+1}|lambda_k) = (k+1)/(k+2)). A configuration = "
        "(interfaces 3-6, move assignment in {sh,wf}^ensembles stratified "
        "over all-sh / all-wf / mixed incl. wf in [0+], interface_cap absent "
        "or at an interface above every wf ensemble, workers 1..ensembles-1, "
        "completion-order adversary). Every run also has a configuration "
        "with wire fencing in [0+] only and the cap at the next interface on "
        "an axis shifted so that the cap is exactly 0.0, and an all-shooting "
        "restart chain (every replica stopped and restarted every 2-3 "
        "steps). Per configuration R independent "
        "replicas (different seeds, the real scheduler() in the rig; a third "
        "of them stopped and restarted or killed with jobs in flight) are "
        "run; per replica and plus-ensemble j the estimate is sum(frac_j/w_j "
        "1[maxOP > lambda_{j+1}]) / sum(frac_j/w_j) over the data-file rows "
        "of non-initial paths after a 10 % burn-in. Verdict per (config, j): "
        "z = (mean - exact)/(sd/sqrt(R)) must lie within max(6, t_{R-1} "
        "quantile for alpha=1e-9) standard errors. Non-trivial = (config, "
        "replica) with >= 50 rows in every plus ensemble; distinct = distinct "
        "(config, seed).")
ASSUMPTIONS = [
    "replica-based standard errors (immune to autocorrelation); the band is "
    "a t-quantile for alpha = 1e-9 and at least 6 SE, so biases smaller than "
    "the reported band half-width are not detected",
    "live paths at the end of a run (a handful out of thousands) are not "
    "included in the estimate",
    "known finding C09-F1 (shooting length bound off by one) biases "
    "P(lambda_1|lambda_0) of shooting [0+] ensembles by about -0.008; a "
    "deviation is attributed before it is reported (counterfactual run with "
    "only that draw rescaled harness-side)",
]
MUST_REACH = ["replica_estimate", "z_test", "ha_swap_threshold"]
JOB_TIMEOUT = 3000


def _config(rng, kind):
    if kind == "chain":
        # shooting everywhere: what a restart forgets about a live path
        # (markers, limits) matters to the next shooting move from it
        cfg = _config(rng, "allsh")
        cfg.update(kind="chain", chain=rng.choice([2, 3]), workers=1)
        return cfg
    n = rng.randint(3, 6) if kind != "big" else 6
    if kind == "allsh":
        moves = ["sh"] * n
    elif kind == "allwf":
        moves = ["sh"] + ["wf"] * (n - 1)
    elif kind == "wf0only":
        # wire fencing in [0+] only, capped at the very next interface: every
        # [0+] path is extended beyond the cap, shooting ensembles sit above
        n = max(n, 4)
        moves = ["sh", "wf"] + ["sh"] * (n - 2)
    elif kind == "wf0cap":
        # wf in [0+] and a cap strictly below the last interface
        n = max(n, 4)
        moves = ["sh", "wf"] + [rng.choice(["sh", "wf"])
                                for _ in range(n - 3)] + ["sh"]
    else:
        moves = ["sh"] + [rng.choice(["sh", "wf"]) for _ in range(n - 1)]
        if "wf" not in moves:
            moves[rng.randint(1, n - 1)] = "wf"
    cap = None
    wf_idx = [i for i, m in enumerate(moves) if m == "wf"]
    if wf_idx and kind in ("wf0cap", "wf0only"):
        # the lowest cap the configuration admits: the most stringent use
        cap = max(wf_idx) + 0.5
    elif wf_idx and rng.random() < 0.4:
        lo = max(wf_idx)
        if lo <= n - 1:
            cap = rng.randint(lo, n - 1) + 0.5
    extra = {}
    if kind == "wf0only" and cap is not None:
        # the axis is shifted so that the configured cap is exactly 0.0 (a
        # legal value that is falsy): the exact answers do not depend on it
        extra["shift"] = -cap
    return {**extra, "n_intf": n, "moves": moves, "cap": cap,
            "workers": rng.randint(1, n - 1),
            "policy": rng.choice(F.POLICIES), "n_jumps": rng.choice([2, 3]),
            "wall": rng.choice([-2, -3]), "kind": kind}


def plan(tier, seed):
    rng = random.Random(f"C01-{seed}")
    if tier == "quick":
        kinds = ["wf0cap", "wf0only", rng.choice(["allsh", "mixed", "allwf"])]
        R, steps = 48, 1800
    else:
        kinds = ["wf0cap", "allsh", "allwf", "mixed", "mixed", "wf0cap",
                 "mixed", "allsh", "mixed", "allwf", "wf0only", "mixed",
                 "wf0only"]
        R, steps = 48, 7000
    # "across restarts": one configuration per run (three in the thorough
    # tier) is a restart chain - every replica is stopped and restarted every
    # 2-5 steps, so whatever a restart does to the live paths (tags, caches,
    # limits that are not persisted) acts on a large fraction of all moves
    kinds = kinds + (["chain"] if tier == "quick" else ["chain"] * 3)
    jobs = []
    forced = None
    if os.environ.get("VERIF_C01_CONFIG"):
        # investigation aid: one given configuration, R replicas x steps
        import json
        forced = json.loads(os.environ["VERIF_C01_CONFIG"])
        R, steps = forced.pop("R", R), forced.pop("steps", steps)
        kinds = ["forced"]
    for ci, kind in enumerate(kinds):
        cfg = _config(rng, kind) if forced is None else dict(
            {"workers": 1, "policy": "fifo", "n_jumps": 2, "wall": -3,
             "cap": None, "kind": "forced"}, **forced)
        for r in range(R):
            spec = dict(cfg, steps=steps, seed=rng.randrange(2 ** 31),
                        adv_seed=rng.randrange(2 ** 31), maxlength=2000,
                        screen=0)
            if cfg.get("chain"):
                g = cfg["chain"]
                spec["segments"] = [{"steps": k}
                                    for k in range(g, steps, g)] + \
                    [{"steps": steps}]
            elif r % 3 == 0:
                k = rng.randint(max(spec["workers"], steps // 5),
                                steps - steps // 5)
                if r % 2 == 0:
                    spec["segments"] = [{"steps": k}, {"steps": steps}]
                else:
                    spec["segments"] = [{"steps": steps, "kill_after": k},
                                        {"steps": steps}]
            jobs.append({"kind": "replica", "config": ci, "spec": spec,
                         "hashseed": rng.randrange(1000)})
    # component monitor: acceptance threshold of the high-acceptance zero
    # swap (detailed balance of the swap needs w_new/w_old with the
    # configured cap), probed inside real scheduler runs
    for k in range(8 if tier == "quick" else 64):
        n = rng.randint(3, 6)
        moves = ["sh", "wf"] + [rng.choice(["sh", "wf"])
                                for _ in range(n - 3)] + ["sh"]
        wf_idx = [i for i, m in enumerate(moves) if m == "wf"]
        cap = rng.choice([None] + [c + 0.5 for c in
                                   range(max(wf_idx), n - 1)] * 2)
        spec = {"n_intf": n, "moves": moves, "cap": cap, "workers": 1,
                "policy": "fifo", "steps": 400, "seed": rng.randrange(2 ** 31),
                "adv_seed": 0, "maxlength": 2000, "screen": 0,
                "wall": rng.choice([-2, -3]), "n_jumps": 2}
        jobs.append({"kind": "haswap", "spec": spec, "hashseed": 0,
                     "seed": rng.randrange(2 ** 31)})
    return jobs


def estimate(cdir, n_intf, burn=0.1, shift=0.0):
    """Per plus-ensemble (num, den, rows) from the data file."""
    from vf.rig_sched import parse_data_file
    rows = parse_data_file(os.path.join(cdir, "infretis_data.txt"))
    rows = [r for r in rows if r["pn"] >= n_intf]
    rows = rows[int(burn * len(rows)):]
    out = []
    for j in range(n_intf - 1):
        col = j + 1
        num = den = 0.0
        cnt = 0
        for r in rows:
            f = float(r["frac"][col]) if col < len(r["frac"]) else 0.0
            if f == 0:
                continue
            w = r["w"][col]
            if w == 0:
                return None, f"row of path {r['pn']} has frac {f} but zero " \
                             f"weight in ensemble column {col}"
            c = f / w
            den += c
            cnt += 1
            # lambda_{j+1} = j + 1.5 ; sites are integers
            if r["maxop"] > j + 1.5 + shift:
                num += c
        out.append((num, den, cnt))
    return out, None


class _LenProxy:
    """Counterfactual for known finding C09-F1: the one draw shoot() makes for
    the length bound is rescaled so that the bound is one frame longer; every
    other call is forwarded to the real generator."""

    def __init__(self, gen, length, stats):
        self._g, self._L, self._first, self._stats = gen, length, True, stats

    def random(self, *a, **k):
        r = self._g.random(*a, **k)
        if self._first and not a and not k:
            self._first = False
            m = int((self._L - 2) / r)
            self._stats["rescaled"] = self._stats.get("rescaled", 0) + 1
            return (self._L - 2) / (m + 1 + 1e-9)
        return r

    def __getattr__(self, name):
        return getattr(self._g, name)


def _install_counterfactual(stats):
    import infretis.core.tis as itis
    orig = itis.shoot

    def shoot(ens_set, path, engine, shooting_point=None, start_cond=("L",)):
        real = ens_set["rgen"]
        draws = path.get_move() != "ld" and not ens_set["tis_set"].get(
            "allowmaxlength", False)
        if draws and shooting_point is None:
            ens_set["rgen"] = _LenProxy(real, path.length, stats)
        try:
            return orig(ens_set, path, engine, shooting_point, start_cond)
        finally:
            ens_set["rgen"] = real
    itis.shoot = shoot


class _FixedU:
    def __init__(self, u):
        self.u = u

    def random(self, *a, **k):
        return self.u


def _haswap(job, scratch):
    """Ride on a real run; every high-acceptance zero swap is decided with a
    scripted draw next to the exact threshold w_new/w_old (capped weights
    from the independent wire-fencing oracle)."""
    import infretis.core.tis as itis
    from vf.oracles import wfseg
    from vf.sched_case import run_case
    res = {"n": 0, "sigs": [], "events": {}, "violations": [], "samples": [],
           "reached": {}, "notes": []}
    spec = job["spec"]
    rng = random.Random(job["seed"])
    lam0 = 0.5
    cap = spec["cap"] if spec["cap"] is not None else spec["n_intf"] - 0.5
    orig = itis.high_acc_swap

    def probe(paths, rgen, intf0, intf1, ens_moves):
        new = [float(p.order[0]) for p in paths[0].phasepoints]
        old = [float(p.order[0]) for p in paths[1].phasepoints]
        w_new = wfseg.weight(new, lam0, lam0, cap)
        w_old = wfseg.weight(old, lam0, lam0, cap)
        if not w_old or list(ens_moves) != ["sh", "wf"]:
            return orig(paths, rgen, intf0, intf1, ens_moves)
        p = float(w_new) / float(w_old)
        u = rng.choice([p * (1 - 1e-9), p * (1 + 1e-9), rng.random()])
        u = min(max(u, 0.0), 0.999999999)
        acc, status = orig(paths, _FixedU(u), intf0, intf1, ens_moves)
        res["n"] += 1
        res["reached"]["ha_swap_threshold"] = \
            res["reached"].get("ha_swap_threshold", 0) + 1
        key = "ha_swap_" + status
        res["events"][key] = res["events"].get(key, 0) + 1
        if bool(acc) != (u < p):
            if len(res["violations"]) < 10:
                res["violations"].append({
                    "mech": "ha-swap-acceptance-threshold",
                    "what": f"high-acceptance [0-]<->[0+] swap with draw "
                            f"u={u!r}: exact threshold w_new/w_old = "
                            f"{w_new}/{w_old} = {p!r} (cap {cap}) but the "
                            f"move returned {status}",
                    "new_0plus": new[:50], "old_0plus": old[:50],
                    "config": {k: spec[k] for k in ("n_intf", "moves",
                                                    "cap")}})
        if abs(u - p) < 1e-6:
            res["sigs"].append(f"ha-{spec['seed']}-{res['n']}")
        return acc, status
    itis.high_acc_swap = probe
    try:
        rig, info = run_case(spec, os.path.join(scratch, "ha"), [])
    finally:
        itis.high_acc_swap = orig
    for v in rig.violations:
        res["violations"].append(dict(v, spec=F.brief(spec)))
    if len(res["samples"]) < 1:
        res["samples"].append({"ha_swap_probe": F.brief(spec),
                               "probes": res["n"]})
    return res


def work(job, scratch):
    from vf.sched_case import run_case
    if job["kind"] == "haswap":
        return _haswap(job, scratch)
    res = {"n": 0, "sigs": [], "events": {}, "violations": [], "samples": [],
           "reached": {}, "notes": []}
    spec = job["spec"]
    stats = {}
    if job.get("counterfactual"):
        _install_counterfactual(stats)
    cdir = os.path.join(scratch, "rep")
    rig, info = run_case(spec, cdir, [])
    res["n"] = 1
    if rig.violations or any(o not in ("done", "killed")
                             for o in info["outcomes"]):
        for v in rig.violations:
            res["violations"].append(dict(v, spec=F.brief(spec)))
        res["x_est"] = None
        return res
    est, err = estimate(cdir, spec["n_intf"],
                        shift=float(spec.get("shift", 0.0)))
    if err:
        res["violations"].append({"mech": "data-row-inconsistent",
                                  "what": err, "spec": F.brief(spec)})
        res["x_est"] = None
        return res
    res["reached"]["replica_estimate"] = 1
    res["x_est"] = {"config": job["config"], "est": est,
                    "counterfactual_draws": stats.get("rescaled", 0),
                    "seed": spec["seed"]}
    res["events"]["replicas"] = 1
    res["events"]["mc_steps"] = spec["steps"]
    res["events"]["data_rows"] = sum(c for _, _, c in est)
    if bool(spec.get("segments")):
        res["events"]["replicas_with_restart"] = 1
    if all(c >= 50 for _, _, c in est):
        res["sigs"].append(f"{job['config']}-{spec['seed']}")
    shutil.rmtree(cdir, ignore_errors=True)
    return res


def _ztable(ests, n_intf, R_min=8):
    from scipy import stats as st
    table = []
    for j in range(n_intf - 1):
        ps = [e["est"][j][0] / e["est"][j][1] for e in ests
              if e["est"][j][1] > 0]
        R = len(ps)
        if R < R_min:
            table.append({"j": j, "R": R, "inconclusive": True})
            continue
        mean = sum(ps) / R
        sd = math.sqrt(sum((p - mean) ** 2 for p in ps) / (R - 1))
        se = sd / math.sqrt(R)
        exact = (j + 1) / (j + 2)
        band = max(6.0, float(st.t.ppf(1 - 0.5e-9, R - 1)))
        z = (mean - exact) / se if se > 0 else (0.0 if mean == exact
                                                else float("inf"))
        table.append({"j": j, "R": R, "mean": mean, "exact": exact, "se": se,
                      "z": z, "band_se": band, "half_width": band * se,
                      "outside": abs(z) > band})
    return table


def aggregate(jobs, results, ctx):
    out = {"n": 0, "sigs": [], "events": {}, "violations": [], "samples": [],
           "reached": {}, "notes": [], "inconclusive": []}
    by_cfg = {}
    for job, r in zip(jobs, results):
        if r is None or not r.get("x_est") or job["kind"] != "replica":
            continue
        by_cfg.setdefault(job["config"], []).append((job, r["x_est"]))
    report = []
    for ci, items in sorted(by_cfg.items()):
        spec0 = items[0][0]["spec"]
        n = spec0["n_intf"]
        table = _ztable([e for _, e in items], n)
        out["reached"]["z_test"] = out["reached"].get("z_test", 0) + 1
        cfgb = {k: spec0[k] for k in ("n_intf", "moves", "cap", "workers",
                                      "policy")}
        report.append({"config": cfgb, "replicas": len(items),
                       "steps_per_replica": spec0["steps"],
                       "table": [{k: (round(v, 5) if isinstance(v, float)
                                      else v) for k, v in t.items()}
                                 for t in table]})
        bad = [t for t in table if t.get("outside")]
        if any(t.get("inconclusive") for t in table):
            out["inconclusive"].append(f"config {ci}: too few replicas")
        if not bad:
            continue
        # the known length-bound mechanism (C09-F1) shifts P by about 0.008:
        # a deviation several times larger cannot be explained by it and is
        # reported without the (expensive, sequential) counterfactual run
        gross = [t for t in bad if abs(t["mean"] - t["exact"]) > 0.04]
        for t in gross:
            out["violations"].append({
                "config": cfgb, "ensemble": t["j"], "A": t,
                "replicas": len(items), "steps": spec0["steps"],
                "mech": "crossing-probability-biased",
                "what": f"config {cfgb}: P(lambda_{t['j'] + 1}|lambda_"
                        f"{t['j']}) = {t['mean']:.4f} +- {t['se']:.4f} vs "
                        f"exact {t['exact']:.4f}: z = {t['z']:.1f}, band "
                        f"{t['band_se']:.1f} SE (five times beyond what the "
                        "known length-bound mechanism can explain)"})
        bad = [t for t in bad if t not in gross]
        if not bad:
            continue
        # attribution: same seeds, only the known mechanism neutralised
        cf_ests, draws = [], 0
        base = len(jobs) + 1000 * ci
        for k, (job, _) in enumerate(items):
            cj = dict(job, counterfactual=True)
            r, note = ctx["run_job"](cj, base + k)
            if r and r.get("x_est"):
                cf_ests.append(r["x_est"])
                draws += r["x_est"].get("counterfactual_draws", 0)
        tb = _ztable(cf_ests, n) if cf_ests else []
        for t in bad:
            j = t["j"]
            tbj = next((x for x in tb if x["j"] == j), None)
            wit = {"config": cfgb, "ensemble": j, "A": t, "B": tbj,
                   "replicas": len(items), "steps": spec0["steps"],
                   "counterfactual_draws_rescaled": draws}
            if draws == 0 or tbj is None or tbj.get("inconclusive"):
                out["inconclusive"].append(
                    f"config {ci} ensemble {j}: outside the band and the "
                    "counterfactual run saw no length draw")
                continue
            if not tbj["outside"]:
                out["violations"].append(dict(
                    wit, mech="shoot-length-bound-off-by-one",
                    where="infretis/core/tis.py:shoot",
                    what=f"P(l{j + 1}|l{j}) = {t['mean']:.4f} vs "
                         f"{t['exact']:.4f} (z={t['z']:.1f}); inside the "
                         "band once the known length-bound mechanism is "
                         "neutralised"))
            else:
                out["violations"].append(dict(
                    wit, mech="crossing-probability-biased",
                    what=f"config {cfgb}: P(lambda_{j + 1}|lambda_{j}) = "
                         f"{t['mean']:.4f} +- {t['se']:.4f} vs exact "
                         f"{t['exact']:.4f}: z = {t['z']:.1f}, band "
                         f"{t['band_se']:.1f} SE (also outside with the "
                         "known mechanism neutralised)"))
    out["x_z_tables"] = report
    out["samples"] = report[:2]
    return out
