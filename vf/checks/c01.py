"""C01 - sampling is unbiased: exact crossing probabilities are reproduced."""
import importlib.util  # noqa: F401
import math
import os
import random
import shutil

from vf.checks import _schedfam as F

PROPERTY = "C01"
LEVEL = "exploration"
RULE = ("statistical acceptance test on the lattice model (symmetric random "
        "walk run through the engine plug-in interface, interfaces at k+1/2, "
        "exact P(lambda_{k+1}|lambda_k) = (k+1)/(k+2)). A configuration = "
        "(interfaces 3-6, move assignment in {sh,wf}^ensembles stratified "
        "over all-sh / all-wf / mixed incl. wf in [0+], interface_cap absent "
        "or at an interface above every wf ensemble, workers 1..ensembles-1, "
        "completion-order adversary). Per configuration R independent "
        "replicas (different seeds, the real scheduler() in the rig; a third "
        "of them stopped and restarted or killed with jobs in flight) are "
        "run; per replica and plus-ensemble j the estimate is sum(frac_j/w_j "
        "1[maxOP > lambda_{j+1}]) / sum(frac_j/w_j) over the data-file rows "
        "of non-initial paths after a 10 % burn-in. Verdict per (config, j): "
        "z = (mean - exact)/(sd/sqrt(R)) must lie within max(6, t_{R-1} "
        "quantile for alpha=1e-9) standard errors. Non-trivial = (config, "
        "replica) with >= 50 rows in every plus ensemble; distinct = distinct "
        "(config, seed).")
ASSUMPTIONS = [
    "replica-based standard errors (immune to autocorrelation); the band is "
    "a t-quantile for alpha = 1e-9 and at least 6 SE, so biases smaller than "
    "the reported band half-width are not detected",
    "live paths at the end of a run (a handful out of thousands) are not "
    "included in the estimate",
    "known finding C09-F1 (shooting length bound off by one) biases "
    "P(lambda_1|lambda_0) of shooting [0+] ensembles by about -0.008; a "
    "deviation is attributed before it is reported (counterfactual run with "
    "only that draw rescaled harness-side)",
]
MUST_REACH = ["replica_estimate", "z_test"]
JOB_TIMEOUT = 3000


def _config(rng, kind):
    n = rng.randint(3, 6) if kind != "big" else 6
    if kind == "allsh":
        moves = ["sh"] * n
    elif kind == "allwf":
        moves = ["sh"] + ["wf"] * (n - 1)
    elif kind == "wf0cap":
        moves = ["sh", "wf"] + [rng.choice(["sh", "wf"]) for _ in range(n - 2)]
    else:
        moves = ["sh"] + [rng.choice(["sh", "wf"]) for _ in range(n - 1)]
        if "wf" not in moves:
            moves[rng.randint(1, n - 1)] = "wf"
    cap = None
    wf_idx = [i for i, m in enumerate(moves) if m == "wf"]
    if wf_idx and (kind == "wf0cap" or rng.random() < 0.4):
        lo = max(wf_idx)
        if lo <= n - 1:
            cap = rng.randint(lo, n - 1) + 0.5
    return {"n_intf": n, "moves": moves, "cap": cap,
            "workers": rng.randint(1, n - 1),
            "policy": rng.choice(F.POLICIES), "n_jumps": rng.choice([2, 3]),
            "wall": rng.choice([-2, -3]), "kind": kind}


def plan(tier, seed):
    rng = random.Random(f"C01-{seed}")
    if tier == "quick":
        kinds = ["wf0cap", rng.choice(["allsh", "mixed", "allwf"])]
        R, steps = 48, 1800
    else:
        kinds = ["wf0cap", "allsh", "allwf", "mixed", "mixed", "wf0cap",
                 "mixed", "allsh", "mixed", "allwf", "wf0cap", "mixed"]
        R, steps = 48, 7000
    jobs = []
    for ci, kind in enumerate(kinds):
        cfg = _config(rng, kind)
        for r in range(R):
            spec = dict(cfg, steps=steps, seed=rng.randrange(2 ** 31),
                        adv_seed=rng.randrange(2 ** 31), maxlength=2000,
                        screen=0)
            if r % 3 == 0:
                k = rng.randint(max(spec["workers"], steps // 5),
                                steps - steps // 5)
                if r % 2 == 0:
                    spec["segments"] = [{"steps": k}, {"steps": steps}]
                else:
                    spec["segments"] = [{"steps": steps, "kill_after": k},
                                        {"steps": steps}]
            jobs.append({"kind": "replica", "config": ci, "spec": spec,
                         "hashseed": rng.randrange(1000)})
    return jobs


def estimate(cdir, n_intf, burn=0.1):
    """Per plus-ensemble (num, den, rows) from the data file."""
    from vf.rig_sched import parse_data_file
    rows = parse_data_file(os.path.join(cdir, "infretis_data.txt"))
    rows = [r for r in rows if r["pn"] >= n_intf]
    rows = rows[int(burn * len(rows)):]
    out = []
    for j in range(n_intf - 1):
        col = j + 1
        num = den = 0.0
        cnt = 0
        for r in rows:
            f = float(r["frac"][col]) if col < len(r["frac"]) else 0.0
            if f == 0:
                continue
            w = r["w"][col]
            if w == 0:
                return None, f"row of path {r['pn']} has frac {f} but zero " \
                             f"weight in ensemble column {col}"
            c = f / w
            den += c
            cnt += 1
            # lambda_{j+1} = j + 1.5 ; sites are integers
            if r["maxop"] > j + 1.5:
                num += c
        out.append((num, den, cnt))
    return out, None


class _LenProxy:
    """Counterfactual for known finding C09-F1: the one draw shoot() makes for
    the length bound is rescaled so that the bound is one frame longer; every
    other call is forwarded to the real generator."""

    def __init__(self, gen, length, stats):
        self._g, self._L, self._first, self._stats = gen, length, True, stats

    def random(self, *a, **k):
        r = self._g.random(*a, **k)
        if self._first and not a and not k:
            self._first = False
            m = int((self._L - 2) / r)
            self._stats["rescaled"] = self._stats.get("rescaled", 0) + 1
            return (self._L - 2) / (m + 1 + 1e-9)
        return r

    def __getattr__(self, name):
        return getattr(self._g, name)


def _install_counterfactual(stats):
    import infretis.core.tis as itis
    orig = itis.shoot

    def shoot(ens_set, path, engine, shooting_point=None, start_cond=("L",)):
        real = ens_set["rgen"]
        draws = path.get_move() != "ld" and not ens_set["tis_set"].get(
            "allowmaxlength", False)
        if draws and shooting_point is None:
            ens_set["rgen"] = _LenProxy(real, path.length, stats)
        try:
            return orig(ens_set, path, engine, shooting_point, start_cond)
        finally:
            ens_set["rgen"] = real
    itis.shoot = shoot


def work(job, scratch):
    from vf.sched_case import run_case
    res = {"n": 0, "sigs": [], "events": {}, "violations": [], "samples": [],
           "reached": {}, "notes": []}
    spec = job["spec"]
    stats = {}
    if job.get("counterfactual"):
        _install_counterfactual(stats)
    cdir = os.path.join(scratch, "rep")
    rig, info = run_case(spec, cdir, [])
    res["n"] = 1
    if rig.violations or any(o not in ("done", "killed")
                             for o in info["outcomes"]):
        for v in rig.violations:
            res["violations"].append(dict(v, spec=F.brief(spec)))
        res["x_est"] = None
        return res
    est, err = estimate(cdir, spec["n_intf"])
    if err:
        res["violations"].append({"mech": "data-row-inconsistent",
                                  "what": err, "spec": F.brief(spec)})
        res["x_est"] = None
        return res
    res["reached"]["replica_estimate"] = 1
    res["x_est"] = {"config": job["config"], "est": est,
                    "counterfactual_draws": stats.get("rescaled", 0),
                    "seed": spec["seed"]}
    res["events"]["replicas"] = 1
    res["events"]["mc_steps"] = spec["steps"]
    res["events"]["data_rows"] = sum(c for _, _, c in est)
    if bool(spec.get("segments")):
        res["events"]["replicas_with_restart"] = 1
    if all(c >= 50 for _, _, c in est):
        res["sigs"].append(f"{job['config']}-{spec['seed']}")
    shutil.rmtree(cdir, ignore_errors=True)
    return res


def _ztable(ests, n_intf, R_min=8):
    from scipy import stats as st
    table = []
    for j in range(n_intf - 1):
        ps = [e["est"][j][0] / e["est"][j][1] for e in ests
              if e["est"][j][1] > 0]
        R = len(ps)
        if R < R_min:
            table.append({"j": j, "R": R, "inconclusive": True})
            continue
        mean = sum(ps) / R
        sd = math.sqrt(sum((p - mean) ** 2 for p in ps) / (R - 1))
        se = sd / math.sqrt(R)
        exact = (j + 1) / (j + 2)
        band = max(6.0, float(st.t.ppf(1 - 0.5e-9, R - 1)))
        z = (mean - exact) / se if se > 0 else (0.0 if mean == exact
                                                else float("inf"))
        table.append({"j": j, "R": R, "mean": mean, "exact": exact, "se": se,
                      "z": z, "band_se": band, "half_width": band * se,
                      "outside": abs(z) > band})
    return table


def aggregate(jobs, results, ctx):
    out = {"n": 0, "sigs": [], "events": {}, "violations": [], "samples": [],
           "reached": {}, "notes": [], "inconclusive": []}
    by_cfg = {}
    for job, r in zip(jobs, results):
        if r is None or not r.get("x_est"):
            continue
        by_cfg.setdefault(job["config"], []).append((job, r["x_est"]))
    report = []
    for ci, items in sorted(by_cfg.items()):
        spec0 = items[0][0]["spec"]
        n = spec0["n_intf"]
        table = _ztable([e for _, e in items], n)
        out["reached"]["z_test"] = out["reached"].get("z_test", 0) + 1
        cfgb = {k: spec0[k] for k in ("n_intf", "moves", "cap", "workers",
                                      "policy")}
        report.append({"config": cfgb, "replicas": len(items),
                       "steps_per_replica": spec0["steps"],
                       "table": [{k: (round(v, 5) if isinstance(v, float)
                                      else v) for k, v in t.items()}
                                 for t in table]})
        bad = [t for t in table if t.get("outside")]
        if any(t.get("inconclusive") for t in table):
            out["inconclusive"].append(f"config {ci}: too few replicas")
        if not bad:
            continue
        # attribution: same seeds, only the known mechanism neutralised
        cf_ests, draws = [], 0
        base = len(jobs) + 1000 * ci
        for k, (job, _) in enumerate(items):
            cj = dict(job, counterfactual=True)
            r, note = ctx["run_job"](cj, base + k)
            if r and r.get("x_est"):
                cf_ests.append(r["x_est"])
                draws += r["x_est"].get("counterfactual_draws", 0)
        tb = _ztable(cf_ests, n) if cf_ests else []
        for t in bad:
            j = t["j"]
            tbj = next((x for x in tb if x["j"] == j), None)
            wit = {"config": cfgb, "ensemble": j, "A": t, "B": tbj,
                   "replicas": len(items), "steps": spec0["steps"],
                   "counterfactual_draws_rescaled": draws}
            if draws == 0 or tbj is None or tbj.get("inconclusive"):
                out["inconclusive"].append(
                    f"config {ci} ensemble {j}: outside the band and the "
                    "counterfactual run saw no length draw")
                continue
            if not tbj["outside"]:
                out["violations"].append(dict(
                    wit, mech="shoot-length-bound-off-by-one",
                    where="infretis/core/tis.py:shoot",
                    what=f"P(l{j + 1}|l{j}) = {t['mean']:.4f} vs "
                         f"{t['exact']:.4f} (z={t['z']:.1f}); inside the "
                         "band once the known length-bound mechanism is "
                         "neutralised"))
            else:
                out["violations"].append(dict(
                    wit, mech="crossing-probability-biased",
                    what=f"config {cfgb}: P(lambda_{j + 1}|lambda_{j}) = "
                         f"{t['mean']:.4f} +- {t['se']:.4f} vs exact "
                         f"{t['exact']:.4f}: z = {t['z']:.1f}, band "
                         f"{t['band_se']:.1f} SE (also outside with the "
                         "known mechanism neutralised)"))
    out["x_z_tables"] = report
    out["samples"] = report[:2]
    return out
