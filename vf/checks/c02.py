"""C02 - swap probabilities equal the exact permanent ratios."""
import importlib.util  # noqa: F401
import itertools
import random

from vf.checks import _schedfam as F

PROPERTY = "C02"
LEVEL = "exploration"
RULE = ("(i) direct drive of a real REPEX_state.inf_retis and of the cached "
        ".prob property: exhaustive 0/1 staircase families (every ordered "
        "tuple of path reaches x every lock subset that leaves a perfect "
        "matching) up to 4 plus-ensembles in the quick tier and 6 in the "
        "thorough tier, random positive integer / real high-acceptance "
        "weights (1..1e4, x2 factors, mixed wf/sh columns) up to 10 "
        "plus-ensembles, row permutations, rescaled rows (metamorphic: P "
        "unchanged; forces the permanent code path where the fast one ran); "
        "oracle = exact permanent by subset DP (ints: exact; floats: no "
        "cancellation), tolerance 1e-9 for 0/1 and 1e-6 for weighted matrices "
        "(measured round-off of the program: 1e-8 relative), plus double "
        "stochasticity and zero "
        "pattern. (ii) the same postcondition rides on scheduler-rig runs, so "
        "the matrices are literally those the sampler reaches, including the "
        "cache (stale-P detection). An independent block decomposition "
        "(Hall) gives the irreducible blocks: only for a block > 12 with "
        "unequal weights does the program use its Monte Carlo estimator - "
        "that deviates from the permanent ratios and is known finding "
        "C02-F26 (re-observed by a direct probe, three exact entries of one "
        "13-14 block); every other matrix, also with 13-18 idle ensembles in "
        "small blocks, must agree within the tolerance above. Non-trivial = "
        "idle block >= 2; "
        "distinct = distinct (zero pattern, lock set, weights).")
ASSUMPTIONS = [
    "reachable family: one [0-] row (1,0,..,0), plus rows with weight >0 "
    "exactly up to the path's reach, ghost slot always locked",
    "for an irreducible block of more than 12 idle ensembles with unequal "
    "weights the program uses a Monte Carlo estimate (random_prob): by the "
    "letter of the property a violation, recorded as known finding C02-F26 "
    "(re-observed by a direct probe in every run); everything else must be "
    "exact (1e-9 for 0/1 weights, 1e-6 for real weights: floating-point "
    "round-off of the program's signed permanent formula, measured 1e-8 "
    "relative against exact rational arithmetic)",
]
MUST_REACH = ["direct_inf_retis", "inf_retis", "prob_property",
              "mc_branch_probe"]
JOB_TIMEOUT = 1700


def plan(tier, seed):
    rng = random.Random(f"C02-{seed}")
    jobs = []
    nmax = 4 if tier == "quick" else 6
    for n in range(1, nmax + 1):
        tuples = list(itertools.product(range(1, n + 1), repeat=n))
        rng.shuffle(tuples)
        chunk = 600
        for i in range(0, len(tuples), chunk):
            jobs.append({"kind": "exh", "n": n, "hashseed": 0,
                         "reaches": tuples[i:i + chunk]})
    nrand = 24 if tier == "quick" else 400
    for j in range(nrand):
        jobs.append({"kind": "rand", "seed": rng.randrange(2 ** 31),
                     "count": 150, "hashseed": rng.randrange(100),
                     "big": tier == "thorough" and j % 20 == 0})
    jobs += F.plan_jobs(tier, seed, "C02", quick_jobs=12, thorough_jobs=160,
                        cases_per_job=4)
    # direct probe of the Monte-Carlo branch (known finding C02-F26): one
    # irreducible block of 13-14 idle ensembles, three entries of the exact
    # reference
    for j in range(2 if tier == "quick" else 8):
        jobs.append({"kind": "mcprobe", "seed": rng.randrange(2 ** 31),
                     "hashseed": 0})
    return jobs


def _mcprobe(job):
    import numpy as np
    from vf.oracles.permanent import perm_dp, minor
    rng = np.random.default_rng(job["seed"])
    rec = _Rec()
    n = int(rng.integers(13, 15))
    st = _mk_state(n)
    # every path reaches the top: one irreducible block of n; unequal
    # weights in the wire-fencing columns
    wf = rng.random(n) < 0.6
    wf[0] = True
    rows = [[float(rng.integers(1, 40)) if wf[j] else 1.0 for j in range(n)]
            for _ in range(n)]
    w = _matrix(n, rows)
    locks = np.zeros(n + 2)
    locks[-1] = 1
    locks[0] = 1          # [0-] busy: the idle block is the n plus paths
    before = st._random_count
    out = np.asarray(st.inf_retis(w.copy(), locks.copy()), dtype=float)
    rec.reached["direct_inf_retis"] = 1
    rec.reached["mc_branch_probe"] = 1
    sub = [[int(x) for x in r] for r in w[1:n + 1, 1:n + 1].tolist()]
    tot = perm_dp(sub)
    errs = []
    for (i, j) in [(0, 0), (n // 2, n // 3), (n - 1, n - 1)]:
        ref = sub[i][j] * perm_dp(minor(sub, i, j)) / tot
        errs.append(abs(float(out[i + 1, j + 1]) - float(ref)))
    called = st._random_count > before
    rec.ev["mc_probe_random_prob_called" if called else
           "mc_probe_exact_path_taken"] = 1
    err = max(errs)
    if err > 1e-6:
        ok = called and err <= 0.25 and \
            abs(out[1:n + 1, 1:n + 1].sum(0) - 1).max() <= 1e-6
        rec.v.append({
            "mech": "P-is-a-monte-carlo-estimate-for-a-block-over-12" if ok
            else "P-differs-from-permanent-ratio",
            "where": "REPEX_state.random_prob" if ok else None,
            "what": f"one irreducible block of {n} idle ensembles, unequal "
                    f"weights: max deviation of three probed entries from "
                    f"the exact permanent ratio = {err:.3g} (random_prob "
                    f"called: {called})", "W": w.tolist()})
    rec.sigs.add(f"mcprobe-{job['seed']}")
    rec.ev["exact_matrices"] = 0
    return rec


def _mk_state(n_plus):
    from infretis.classes.repex import REPEX_state
    size = n_plus + 1           # number of interfaces = ensembles incl [0-]
    cfg = {"current": {"size": size, "cstep": 0},
           "runner": {"workers": 1}, "simulation": {"seed": 0},
           "output": {}}
    return REPEX_state(cfg, minus=True)


def _matrix(n_plus, rows):
    """rows: list of weight lists for the plus paths (len n_plus each)."""
    import numpy as np
    n = n_plus + 2
    w = np.zeros((n, n))
    w[0, 0] = 1.0
    for i, r in enumerate(rows):
        w[i + 1, 1:1 + n_plus] = r
    return w


class _Rec:
    def __init__(self):
        self.v, self.ev, self.reached, self.sigs = [], {}, {}, set()
        self.samples = []


def _check(rec, st, w, locks, tag):
    """Call the real inf_retis and compare with the oracle."""
    import numpy as np
    from vf.oracles.permanent import p_matrix
    from vf.oracles.permanent import p_matrix_blocks
    idle = np.where(locks == 0)[0]
    sub = w[np.ix_(idle, idle)]
    ints = bool(np.all(sub == np.round(sub))) and sub.max(initial=0) < 1e6
    lst = [[int(x) for x in r] for r in sub.tolist()] if ints else \
        sub.tolist()
    # block-wise reference (cheap for many idle ensembles); the sizes of the
    # irreducible blocks also say where a Monte-Carlo estimate is legitimate
    cap_b = 12 if len(idle) > 9 else 99
    if len(idle) and idle[0] == 0 and lst[0][0] and \
            not any(lst[0][1:]) and not any(r[0] for r in lst[1:]):
        # the [0-] path and ensemble only match each other: a 1x1 block
        refb, sizes = p_matrix_blocks([r[1:] for r in lst[1:]], cap_b)
        if refb not in (None, False):
            refb = [[1] + [0] * (len(lst) - 1)] + [[0] + list(r)
                                                   for r in refb]
        sizes = [1] + list(sizes)
    else:
        refb, sizes = p_matrix_blocks(lst, cap_b)
    if len(idle) <= 9:
        ref, tot = p_matrix(lst)
        if ref is not None and refb not in (None, False):
            rec.ev["oracle_blockwise_vs_full_crosschecks"] = \
                rec.ev.get("oracle_blockwise_vs_full_crosschecks", 0) + 1
            if max(abs(float(a) - float(b)) for ra, rb in zip(ref, refb)
                   for a, b in zip(ra, rb)) > 1e-12:
                raise RuntimeError("block-wise and full reference disagree")
    elif refb is False:
        ref, tot = p_matrix(lst)     # a block > 12: full DP (slow)
    else:
        ref = refb
    if ref is None:
        rec.ev["skipped_no_perfect_matching"] = \
            rec.ev.get("skipped_no_perfect_matching", 0) + 1
        return None
    ref = np.array([[float(x) for x in r] for r in ref])
    try:
        out = st.inf_retis(w.copy(), locks.copy())
    except BaseException as exc:
        rec.v.append({"mech": "inf-retis-raised", "what":
                      f"{tag}: inf_retis raised {type(exc).__name__}: {exc}",
                      "W": w.tolist(), "locks": locks.tolist()})
        return None
    rec.reached["direct_inf_retis"] = rec.reached.get("direct_inf_retis",
                                                      0) + 1
    out = np.asarray(out, dtype=float)
    got = out[np.ix_(idle, idle)]
    busy = np.where(locks == 1)[0]
    # the Monte-Carlo estimator is by design only for an irreducible block
    # of more than 12 ensembles: everything else must be exact
    mc = max(sizes, default=0) > 12 and \
        st._random_count > getattr(st, "_vf_rc", 0)
    if st._random_count > getattr(st, "_vf_rc", 0):
        rec.ev["random_prob_calls_seen"] = \
            rec.ev.get("random_prob_calls_seen", 0) + 1
    st._vf_rc = st._random_count
    if len(idle) > 12:
        rec.ev["matrices_with_more_than_12_idle"] = \
            rec.ev.get("matrices_with_more_than_12_idle", 0) + 1
    # 0/1 matrices: every code path is exact in floating point; weighted
    # ones: the program's permanent formula alternates signs, a relative
    # round-off of ~1e-8 was measured against exact rationals (weights up to
    # 1e4, blocks of 7) - a bug moves P by 1e-3 or more
    tol = 0.25 if mc else (1e-9 if ints and sub.max(initial=0) <= 1 else 1e-6)
    key = "mc_matrices" if mc else "exact_matrices"
    rec.ev[key] = rec.ev.get(key, 0) + 1
    if len(idle) >= 2:
        rec.sigs.add(hash((sub.tobytes(), locks.tobytes())))
    if out.shape != w.shape:
        rec.v.append({"mech": "P-shape", "what": f"{tag}: shape {out.shape}",
                      "W": w.tolist(), "locks": locks.tolist()})
        return None
    if busy.size and (np.any(out[busy, :] != 0) or np.any(out[:, busy] != 0)):
        rec.v.append({"mech": "P-nonzero-on-busy", "what": tag,
                      "W": w.tolist(), "locks": locks.tolist(),
                      "P": out.tolist()})
    err = float(np.max(np.abs(got - ref))) if got.size else 0.0
    if mc and np.all(np.isfinite(got)) and 1e-6 < err <= 0.25:
        # by the letter of the property this is a violation: the program
        # estimates P by Monte Carlo for a block of more than 12 ensembles
        # (recorded as a known finding; anything else stays a violation)
        if rec.ev.get("mc_known_witnesses", 0) < 3:
            rec.v.append({"mech": "P-is-a-monte-carlo-estimate-for-a-block-"
                                  "over-12",
                          "where": "REPEX_state.random_prob",
                          "what": f"{tag}: block sizes {sizes}, random_prob "
                                  f"called, max|P-ref|={err:.3g}",
                          "W": w.tolist(), "locks": locks.tolist()})
        rec.ev["mc_known_witnesses"] = rec.ev.get("mc_known_witnesses", 0) + 1
    elif not np.all(np.isfinite(got)) or err > tol:
        rec.v.append({"mech": "P-differs-from-permanent-ratio",
                      "what": f"{tag}: max|P-ref|={err:.3g} (tol {tol})",
                      "W": w.tolist(), "locks": locks.tolist(),
                      "P": out.tolist(), "ref": ref.tolist()})
    if np.any((sub == 0) & (got != 0)):
        rec.v.append({"mech": "P-nonzero-where-W-zero", "what": tag,
                      "W": w.tolist(), "locks": locks.tolist(),
                      "P": out.tolist()})
    if got.size and not (np.max(np.abs(got.sum(0) - 1)) <= 1e-6 and
                         np.max(np.abs(got.sum(1) - 1)) <= 1e-6):
        rec.v.append({"mech": "P-not-doubly-stochastic", "what": tag,
                      "W": w.tolist(), "locks": locks.tolist(),
                      "P": out.tolist()})
    return out


def _exh(job):
    import numpy as np
    n = job["n"]
    rec = _Rec()
    st = _mk_state(n)
    N = n + 2
    locksets = list(itertools.product([0, 1], repeat=n + 1))
    for reaches in job["reaches"]:
        rows = [[1.0 if j < r else 0.0 for j in range(n)] for r in reaches]
        w = _matrix(n, rows)
        for ls in locksets:
            locks = np.array(list(ls) + [1], dtype=float)
            if locks[:-1].sum() == n + 1:
                continue
            _check(rec, st, w, locks, "exhaustive 0/1")
        if len(rec.samples) < 1:
            rec.samples.append({"n_plus": n, "reaches": list(reaches),
                                "W": w.tolist()})
    return rec


def _rand(job):
    import numpy as np
    rng = np.random.default_rng(job["seed"])
    rec = _Rec()
    states = {}
    for c in range(job["count"]):
        manyidle = c % 12 == 5
        if job.get("big") and c % 10 == 0:
            n = int(rng.integers(13, 16))
        elif manyidle:
            n = int(rng.integers(13, 19))
        else:
            n = int(rng.integers(2, 11))
        st = states.setdefault(n, _mk_state(n))
        wf = rng.random(n) < 0.5
        if rng.random() < 0.2:
            wf[:] = False
        rows = []
        reaches = [int(rng.integers(1, n + 1)) for _ in range(n)]
        if manyidle:
            # more than 12 idle ensembles, irreducible blocks of at most 7
            reaches, s0 = [], 0
            while s0 < n:
                b = min(n - s0, int(rng.integers(1, 8)))
                reaches += [s0 + int(rng.integers(t + 1, b + 1))
                            for t in range(b)]
                s0 += b
        for r in reaches:
            row = np.zeros(n)
            for j in range(r):
                if wf[j]:
                    kind = rng.integers(0, 3)
                    if kind == 0:
                        v = float(rng.integers(1, 10000))
                    elif kind == 1:
                        v = 2.0 * float(rng.integers(1, 5000))
                    else:
                        v = float(np.round(rng.uniform(0.5, 5000), 3))
                    row[j] = v
                else:
                    row[j] = 1.0
            rows.append(row)
        w = _matrix(n, rows)
        # a random reachable ordering: permute plus rows, keep only those
        # that leave a perfect matching (checked by the oracle)
        perm = rng.permutation(n)
        w2 = w.copy()
        w2[1:n + 1] = w[1:n + 1][perm]
        locks = (rng.random(n + 2) < 0.3).astype(float)
        locks[-1] = 1
        if locks[:-1].sum() == n + 1:
            locks[0] = 0
        if manyidle:
            # nothing busy: locking a slot removes a row of one block and a
            # column of another and would merge blocks beyond 12
            locks[:-1] = 0
        elif n > 8:
            # keep the oracle affordable: lock enough to leave <= 9 idle
            idx = list(np.where(locks[:-1] == 0)[0])
            rng.shuffle(idx)
            if not (job.get("big") and n > 12):
                for i in idx[9:]:
                    locks[i] = 1
        out = _check(rec, st, w2, locks, "random weights")
        if out is None:
            continue
        # metamorphic: rescale one idle plus row
        idle = [i for i in np.where(locks == 0)[0] if i >= 1]
        if idle and not (job.get("big") and n > 12):
            i = int(rng.choice(idle))
            w3 = w2.copy()
            w3[i] *= float(rng.choice([0.001, 0.5, 3.0, 1000.0, 1e6]))
            try:
                out3 = np.asarray(st.inf_retis(w3, locks.copy()), dtype=float)
                rec.ev["rescale_pairs"] = rec.ev.get("rescale_pairs", 0) + 1
                if not (np.max(np.abs(out3 - out)) <= 1e-6):
                    rec.v.append({
                        "mech": "P-changes-under-row-rescaling",
                        "what": f"max diff {np.max(np.abs(out3 - out)):.3g}",
                        "W": w2.tolist(), "locks": locks.tolist(), "row": i})
            except BaseException as exc:
                rec.v.append({"mech": "inf-retis-raised", "what":
                              f"rescaled: {type(exc).__name__}: {exc}",
                              "W": w3.tolist(), "locks": locks.tolist()})
        # the cached property on a state object must give the same
        st.state = w2.copy()
        st._locks = locks.copy()
        st._last_prob = None
        if not (job.get("big") and n > 12):
            pr = np.asarray(st.prob, dtype=float)
            if not (np.max(np.abs(pr - out)) <= 1e-12):
                rec.v.append({"mech": "prob-property-differs", "what":
                              "state.prob != inf_retis(abs(state), locks)",
                              "W": w2.tolist(), "locks": locks.tolist()})
        if len(rec.samples) < 1:
            rec.samples.append({"W": w2.tolist(), "locks": locks.tolist()})
    return rec


def _mons(spec, cdir):
    from vf.monitors import ProbMonitor
    return [ProbMonitor()]


def _nontrivial(rig, spec, mons):
    return rig.events.get("P_checked", 0) > 10


def _finish(rig, spec, mons, cdir, info):
    rig.events["distinct_patterns_in_case"] = len(mons[0].patterns)
    return str(sorted(hash(p) for p in mons[0].patterns))


def work(job, scratch):
    if job["kind"] == "rig":
        return F.generic_work(job, scratch, _mons, _nontrivial, _finish)
    rec = _exh(job) if job["kind"] == "exh" else (
        _mcprobe(job) if job["kind"] == "mcprobe" else _rand(job))
    n = sum(v for k, v in rec.ev.items() if k.endswith("_matrices"))
    return {"n": n, "sigs": [str(s) for s in rec.sigs], "events": rec.ev,
            "violations": rec.v[:40], "samples": rec.samples,
            "reached": rec.reached, "notes": []}
