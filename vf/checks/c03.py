"""C03 - a busy ensemble, path, engine or work directory is never shared."""
import importlib.util  # noqa: F401

from vf.checks import _schedfam as F

PROPERTY = "C03"
LEVEL = "exploration"
RULE = ("random scheduler-rig histories of the real scheduler()/REPEX_state "
        "with the lattice plug-in engine: 2-7 ensembles, 1..ensembles-1 "
        "workers, sh/wf mixes, caps, multi-engine layouts, five completion-"
        "order adversaries, clean restarts and kills with jobs in flight; plus "
        "the exhaustive abstract-state exploration of small systems "
        "(vf.rig_explore). A case is non-trivial if it has >=1 accepted and "
        ">=1 rejected move and (workers == 1 or >= 2 jobs were in flight "
        "together); distinct = distinct (configuration, completion order, "
        "event histogram).")
ASSUMPTIONS = [
    "jobs are executed by the real run_md at the moment the adversary lets "
    "them complete, on a pickle round trip of md_items (as the process pool "
    "does); true multi-process timing is exercised separately in C17",
    "the lattice plug-in engine stands in for an MD engine",
]
MUST_REACH = ["engine_exe_dir", "prep_md_items", "treat_output"]
JOB_TIMEOUT = 2700


def plan(tier, seed):
    import random
    jobs = F.plan_jobs(tier, seed, "C03", quick_jobs=32, thorough_jobs=600)
    # a real MD engine class (TurtleMD, the repository's double-well example)
    # in a multi-engine layout ([0-] has its own engine section): the engine
    # objects themselves must work in the directory of the job they serve
    rng = random.Random(f"C03t-{seed}")
    for j in range(4 if tier == "quick" else 40):
        specs = []
        for _ in range(2):
            w = rng.randint(2, 4)
            specs.append({"engine": "turtlemd", "engine0": True,
                          "n_intf": 8, "workers": w,
                          "steps": rng.randint(12, 24),
                          "seed": rng.randrange(2 ** 31),
                          "policy": rng.choice(F.POLICIES),
                          "adv_seed": rng.randrange(2 ** 31),
                          "maxlength": 2000, "n_jumps": 2,
                          "moves": ["sh", "sh", "wf", "wf", "sh", "wf", "wf",
                                    "wf"] if rng.random() < 0.5 else
                          ["sh"] * 8, "cap": None})
        jobs.append({"kind": "rig", "hashseed": rng.randrange(1000),
                     "specs": specs})
    from vf import rig_explore
    jobs += rig_explore.plan(tier, seed)
    return jobs


def _mons(spec, cdir):
    from vf.monitors import LockMonitor, ExeDirMonitor
    return [LockMonitor(), ExeDirMonitor()]


def _nontrivial(rig, spec, mons):
    ev = rig.events
    return ev.get("status_ACC", 0) >= 1 and \
        ev.get("jobs_completed", 0) > ev.get("status_ACC", 0) and \
        (spec["workers"] == 1 or mons[0].maxflight >= 2)


def _finish(rig, spec, mons, cdir, info):
    rig.events["lock_sets_seen_in_case"] = len(mons[0].locksets)


def work(job, scratch):
    if job["kind"] == "explore":
        from vf import rig_explore
        return rig_explore.work(job, scratch, props=("C03",))
    return F.generic_work(job, scratch, _mons, _nontrivial, _finish)
