"""C04 - fractional weights are conserved and accounted for exactly once."""
import importlib.util  # noqa: F401

from vf.checks import _schedfam as F

PROPERTY = "C04"
LEVEL = "exploration"
RULE = ("random scheduler-rig histories (as C03: 2-7 ensembles, all worker "
        "counts, sh/wf with non-integer fractions, adversarial completion "
        "orders, restart chains, kills with jobs in flight). Online oracle "
        "after every treat_output: per-path delta of traj_data frac (long "
        "double) summed per ensemble column must be 1 on idle and 0 on busy "
        "columns, zero where the path's weight is zero, zero for busy paths; "
        "each data-file row equals the accumulated fractions of the replaced "
        "path and is written exactly once. Offline oracle at every stop and "
        "at the end: rows + live fractions in restart.toml = number of steps "
        "at which the ensemble was idle. Non-trivial = >=1 accepted and >=1 "
        "rejected move; distinct = distinct (configuration, completion "
        "order, event histogram).")
ASSUMPTIONS = [
    "idle/busy is evaluated after the finished job's ensembles are unlocked "
    "and before the next pick (the instant the program records weights)",
    "the ghost slot (last column, permanently locked) is excluded",
]
MUST_REACH = ["frac_delta", "write_to_pathens", "totals"]
JOB_TIMEOUT = 1500


def plan(tier, seed):
    import random
    jobs = F.plan_jobs(tier, seed, "C04", quick_jobs=32, thorough_jobs=600)
    # some stops are crashes of the main process inside a step: right after
    # the data row(s) of an accepted move were appended and before the
    # restart file is rewritten, or right after the restart file was written
    rng = random.Random(f"C04k-{seed}")
    for job in jobs:
        for spec in job["specs"]:
            # the restart file is the crash-recovery reference: it must be
            # current whatever the print frequency
            spec["screen"] = rng.choice([1, 1, 0, 2, 5, 10])
            if rng.random() < 0.35:
                j = rng.randint(2, 12)
                point = rng.choice(["after_write_to_pathens",
                                    "after_write_to_pathens",
                                    "after_write_toml"])
                spec["segments"] = [
                    {"steps": spec["steps"], "kill_in": [point, j]},
                    {"steps": spec["steps"]}]
    # one history per job is a one-worker run that finishes and is then
    # extended by one or two steps (the one-worker law "rows + live = step
    # counter" is exact there, whoever counts the steps)
    for job in jobs:
        spec = job["specs"][0]
        spec["workers"] = 1
        n = spec["steps"]
        k = rng.choice([1, 1, 2])
        spec["segments"] = [{"steps": n - k}, {"steps": n}]
        if rng.random() < 0.5:
            spec["segments"].append({"steps": n + 1})
    return jobs


def _mons(spec, cdir):
    from vf.monitors import FracMonitor

    class M(FracMonitor):
        def after_segment(self, rig, i, out):
            import os
            if out in ("done", "killed") and not rig.kill_in and \
                    os.path.isfile(os.path.join(rig.cdir, "restart.toml")):
                self.totals_check(rig, rig.cdir)
                rig.ev("offline_totals_checked")
    return [M()]


def _nontrivial(rig, spec, mons):
    ev = rig.events
    return ev.get("rows_written", 0) >= 1 and ev.get("frac_steps", 0) > \
        ev.get("rows_written", 0) / 2


def work(job, scratch):
    return F.generic_work(job, scratch, _mons, _nontrivial)
