"""C05 - the sampler never stalls."""
import importlib.util  # noqa: F401
import os
import shutil

from vf.checks import _schedfam as F

PROPERTY = "C05"
LEVEL = "exploration"
RULE = ("random scheduler-rig histories with 2-8 ensembles and every "
        "permitted worker count, sh/wf mixes, short length limits, all "
        "completion-order adversaries, restarts and kills. Monitors: every P "
        "computed by inf_retis is finite and sums to the number of idle "
        "ensembles; pick/prep/treat never raise; after every treat_output each "
        "idle live path has non-zero weight in its slot, live paths are "
        "distinct, path numbers strictly increase; sort_trajstate never "
        "revisits a (path order, state) pair (its loop is deterministic, so a "
        "repeat is non-termination - decided logically); the restart file "
        "written at sampled steps loads in a fresh process with non-zero "
        "diagonal weights and accepts the first picks. Non-trivial = >=1 "
        "accepted move and >=1 sort that had to swap or >=2 jobs in flight.")
ASSUMPTIONS = [
    "liveness is decided as bounded progress: every prep_md_items call made "
    "by the scheduler returns a job; no wall-clock verdicts",
]
MUST_REACH = ["pick", "sort_trajstate", "P_finite", "restart_probe"]
JOB_TIMEOUT = 2700


def plan(tier, seed):
    jobs = F.plan_jobs(tier, seed, "C05", quick_jobs=32, thorough_jobs=600,
                       nmax=8)
    from vf import rig_explore
    jobs.append({"kind": "nonstaircase", "hashseed": 0, "seed": seed})
    return jobs + rig_explore.plan(tier, seed)


def _mons(spec, cdir):
    from vf.monitors import StallMonitor
    from vf.probe_restart import run_probe
    import random
    prng = random.Random(spec["seed"])
    nprobe = [0]

    class M(StallMonitor):
        def after_write_toml(self, rig, state, out):
            # sample a few steps per case (each probe is a fresh process)
            if nprobe[0] >= 2 or prng.random() > 0.03:
                return
            if int(state.cstep) >= int(state.tsteps):
                return
            nprobe[0] += 1
            dst = rig.cdir + "-probe"
            shutil.rmtree(dst, ignore_errors=True)
            shutil.copytree(rig.cdir, dst)
            res = run_probe(dst, picks=True)
            shutil.rmtree(dst, ignore_errors=True)
            if res.get("timeout"):
                rig.ev("probe_timeout")
                return
            rig.reach("restart_probe")
            rig.ev("restart_probes")
            if res.get("none") or not res.get("loads") or res.get("error"):
                rig.violate("restart-file-does-not-load",
                            "restart file written after a step does not load",
                            probe=res)
            elif res.get("zero_weight_slots") or res.get("missing_files"):
                rig.violate("restart-state-invalid",
                            "restart loads into an invalid state", probe=res)
    return [M()]


def _nontrivial(rig, spec, mons):
    ev = rig.events
    return ev.get("picks", 0) > 5 and (ev.get("sorts_with_swaps", 0) >= 1 or
                                       spec["workers"] >= 2)


def _nonstaircase(job, scratch):
    """Known finding C05-F25, probed directly: a live path whose weight is
    zero in a wire-fencing ensemble *below* an ensemble where it is non-zero
    (its trajectory jumped over the whole band [lambda_i, cap)).  A perfect
    matching exists, so by the property a job can be drawn; the program's P
    calculation assumes staircase rows."""
    import itertools
    import numpy as np
    from vf.checks.c02 import _mk_state, _matrix
    from vf.oracles.permanent import p_matrix
    res = {"n": 0, "sigs": [], "events": {}, "violations": [], "samples": [],
           "reached": {}, "notes": []}
    for n in (3, 4):
        st = _mk_state(n)
        rows0 = [[1.0 if j <= i else 0.0 for j in range(n)] for i in range(n)]
        for i, hole in itertools.product(range(1, n), range(0, n - 1)):
            if hole >= i:
                continue
            rows = [list(r) for r in rows0]
            rows[i][hole] = 0.0       # jumped over band `hole`, valid above
            if hole > 0:
                rows[i][hole] = 0.0
            w = _matrix(n, rows)
            locks = np.zeros(n + 2)
            locks[-1] = 1
            idle = np.where(locks == 0)[0]
            ref, tot = p_matrix(w[np.ix_(idle, idle)].tolist())
            if ref is None:
                continue
            res["n"] += 1
            res["reached"]["nonstaircase_probe"] = \
                res["reached"].get("nonstaircase_probe", 0) + 1
            bad = None
            try:
                out = np.asarray(st.inf_retis(w.copy(), locks.copy()),
                                 dtype=float)[np.ix_(idle, idle)]
                if not np.all(np.isfinite(out)) or \
                        not (np.max(np.abs(out - np.array(ref, dtype=float)))
                             <= 1e-9):
                    bad = "P differs from the permanent ratios"
            except BaseException as exc:
                bad = f"inf_retis raised {type(exc).__name__}"
            key = "nonstaircase_" + ("ok" if bad is None else "fails")
            res["events"][key] = res["events"].get(key, 0) + 1
            res["sigs"].append(f"ns-{n}-{i}-{hole}")
            if bad:
                res["violations"].append({
                    "mech": "P-fails-on-non-staircase-weights",
                    "where": "REPEX_state.inf_retis",
                    "what": f"{bad} for a weight matrix with a perfect "
                            "matching whose row has a zero below a non-zero "
                            "entry", "W": w.tolist()})
            if len(res["samples"]) < 1:
                res["samples"].append({"nonstaircase_W": w.tolist()})
    return res


def work(job, scratch):
    if job["kind"] == "nonstaircase":
        return _nonstaircase(job, scratch)
    if job["kind"] == "explore":
        from vf import rig_explore
        return rig_explore.work(job, scratch, props=("C05",))
    return F.generic_work(job, scratch, _mons, _nontrivial)
