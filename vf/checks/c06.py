"""C06 - same seed, same run: determinism and restart equivalence."""
import importlib.util  # noqa: F401
import glob
import os
import random
import shutil

from vf.checks import _schedfam as F

PROPERTY = "C06"
LEVEL = "exploration"
RULE = ("differential, byte-exact: for one seed the files infretis_data.txt "
        "and restart.toml (current.restarted_from dropped, as the "
        "repository's own e2e test does) of run A (N steps in one go) are "
        "compared with run B (stopped after k steps by steps=k and continued "
        "from restart.toml with steps edited, or killed at a step boundary, "
        "once or in chains of 2-4). Seeds from the full 31-bit range; every "
        "split point for small N, random ones otherwise; sh and wf; lattice "
        "and ballistic plug-in engines (integer order parameters) with "
        "allowmaxlength=true or chain-vs-chain comparison; TurtleMD double "
        "well (out-of-scope cases - an order value within 2e-6 of an "
        "interface, or a difference confined to the 5-decimal max-OP column "
        "- are discarded and counted). Multi-worker: determinism of two "
        "identical runs, and after a kill the first jobs issued by the "
        "restart are exactly the recorded in-flight (ensemble, path) pairs. "
        "Non-trivial pair = both runs contain >=1 accepted move after the "
        "first split; distinct = distinct (spec, splits).")
ASSUMPTIONS = [
    "scope as stated by the property: six-decimal order parameters; the loss "
    "of the 'ld' marker at a restart is kept out by allowmaxlength=true or by "
    "comparing restart chains with each other",
    "stop = steps=k then edit of steps in restart.toml, or kill at a step "
    "boundary (after the restart file of step k was written)",
]
MUST_REACH = ["pair_compared", "reissue_checked", "determinism_compared",
              "hash_seed_pair_compared"]
JOB_TIMEOUT = 1700


def _pair(rng, tier):
    n = rng.randint(2, 6)
    eng = rng.choice(["lattice", "lattice", "ballistic"])
    spec = {"n_intf": n, "workers": 1, "engine": eng,
            "moves": ["sh"] + [rng.choice(["sh", "wf"])
                               for _ in range(n - 1)],
            "seed": rng.randrange(2 ** 31), "maxlength": rng.choice(
                [2000, 200, 40]),
            "n_jumps": rng.choice([1, 2, 3]), "wall": rng.choice([-2, -3]),
            "delete_old": rng.random() < 0.5, "policy": "fifo",
            "adv_seed": 0}
    if spec["delete_old"] and rng.random() < 0.5:
        spec["delete_old_all"] = True
    wf_idx = [i for i, m in enumerate(spec["moves"]) if m == "wf"]
    if wf_idx and rng.random() < 0.5 and max(wf_idx) <= n - 1:
        spec["cap"] = rng.randint(max(wf_idx), n - 1) + 0.5
    if rng.random() < 0.15:
        spec["lm1"] = -1.5
        if rng.random() < 0.5:
            spec["shift"] = 1.5           # lambda_minus_one == 0.0
    elif spec.get("cap") is not None and rng.random() < 0.3:
        spec["shift"] = -spec["cap"]      # interface_cap == 0.0
    N = rng.randint(8, 40) if rng.random() < 0.7 else rng.randint(40, 160)
    spec["steps"] = N
    nsplit = rng.choice([1, 1, 2, 3])
    cuts = sorted(rng.sample(range(1, N), min(nsplit, N - 1)))
    mode = rng.choice(["straight", "chain"])
    kills = [rng.random() < 0.4 for _ in cuts]

    def segs(cs, ks):
        out, cur = [], 0
        for c, k in zip(cs, ks):
            if k:
                out.append({"steps": N, "kill_after": c - cur})
            else:
                out.append({"steps": c})
            cur = c
        out.append({"steps": N})
        return out
    if mode == "straight":
        spec["allowmaxlength"] = True
        a = [{"steps": N}]
        b = segs(cuts, kills)
    else:
        spec["allowmaxlength"] = rng.random() < 0.3
        # both chains share the first split (the marker is lost there)
        first = cuts[0]
        a = segs([first], [False])
        more = sorted(set(rng.sample(range(first + 1, N + 1),
                                     min(2, N - first)) if N > first + 1
                          else []) - {N})
        if not more:
            more = []
        b = segs([first] + more, [False] + [rng.random() < 0.4
                                            for _ in more])
    return {"spec": spec, "A": a, "B": b, "mode": mode}


def _turtle_pair(rng, tier):
    N = rng.randint(6, 14)
    spec = {"engine": "turtlemd", "n_intf": 8, "workers": 1,
            "seed": rng.randrange(2 ** 31), "steps": N,
            "allowmaxlength": True, "n_jumps": rng.choice([1, 2]),
            "moves": rng.choice([
                ['sh', 'sh', 'wf', 'wf', 'wf', 'wf', 'wf', 'wf'],
                ['sh'] * 8,
                ['sh', 'sh', 'sh', 'wf', 'sh', 'wf', 'sh', 'sh']]),
            "delete_old": rng.random() < 0.5, "policy": "fifo", "adv_seed": 0}
    k = rng.randint(1, N - 1)
    b = [{"steps": k}, {"steps": N}] if rng.random() < 0.6 else \
        [{"steps": N, "kill_after": k}, {"steps": N}]
    return {"spec": spec, "A": [{"steps": N}], "B": b, "mode": "straight"}


def _multi(rng, tier):
    s = F.gen_spec(rng, tier, nmin=3, nmax=6, steps=(20, 60), restarts=False)
    s["workers"] = rng.randint(2, s["n_intf"] - 1)
    k = rng.randint(s["workers"], s["steps"] - 2)
    return {"spec": s, "kill": k}


def plan(tier, seed):
    rng = random.Random(f"C06-{seed}")
    if tier == "quick":
        npair, nturtle, nmulti = 160, 10, 40
    else:
        npair, nturtle, nmulti = 4000, 160, 800
    jobs = []
    pairs = [_pair(rng, tier) for _ in range(npair)]
    # every split point of a small run (exhaustive over k for that seed)
    base = _pair(rng, tier)
    base["spec"]["steps"] = 14
    base["spec"]["allowmaxlength"] = True
    for k in range(1, 14):
        p = {"spec": dict(base["spec"]), "A": [{"steps": 14}],
             "B": [{"steps": k}, {"steps": 14}], "mode": "straight"}
        pairs.append(p)
    for i in range(0, len(pairs), 6):
        jobs.append({"kind": "pairs", "hashseed": rng.randrange(1000),
                     "pairs": pairs[i:i + 6]})
    tp = [_turtle_pair(rng, tier) for _ in range(nturtle)]
    for i in range(0, len(tp), 1):
        jobs.append({"kind": "pairs", "hashseed": rng.randrange(1000),
                     "pairs": tp[i:i + 1]})
    # the process itself must not matter: the same seed in interpreters
    # with different string-hash seeds (run A in one process; run B stopped
    # and continued in two more), ensembles listing two engines
    for j in range(6 if tier == "quick" else 60):
        hp = []
        for _ in range(4):
            p = _pair(rng, tier)
            p["spec"]["allowmaxlength"] = True
            p["spec"]["engines2"] = True
            p["spec"]["engine0"] = rng.random() < 0.5
            p["spec"]["steps"] = min(p["spec"]["steps"], 40)
            N = p["spec"]["steps"]
            p["k"] = rng.randint(1, N - 1)
            p["hashseeds"] = rng.sample(range(1, 4000), 3)
            hp.append(p)
        jobs.append({"kind": "hashpairs", "hashseed": 0, "pairs": hp})
    mm = [_multi(rng, tier) for _ in range(nmulti)]
    for i in range(0, len(mm), 5):
        jobs.append({"kind": "multi", "hashseed": rng.randrange(1000),
                     "cases": mm[i:i + 5]})
    return jobs


# -------------------------------------------------------------------------
def _norm_restart(cdir):
    import tomli
    import tomli_w
    with open(os.path.join(cdir, "restart.toml"), "rb") as f:
        cfg = tomli.load(f)
    cfg["current"].pop("restarted_from", None)
    return cfg, tomli_w.dumps(cfg)


def _near_interface(cdir, interfaces, eps=2e-6):
    for f in glob.glob(os.path.join(cdir, "load", "*", "order.txt")):
        with open(f) as fh:
            for line in fh:
                if line.startswith("#"):
                    continue
                s = line.split()
                if len(s) < 2:
                    continue
                v = float(s[1])
                for lam in interfaces:
                    if abs(v - lam) <= eps:
                        return True
    return False


def _compare(dA, dB, tolerant):
    """Returns (equal, out_of_scope, witness)."""
    fa = open(os.path.join(dA, "infretis_data.txt")).read()
    fb = open(os.path.join(dB, "infretis_data.txt")).read()
    ca, ta = _norm_restart(dA)
    cb, tb = _norm_restart(dB)
    if fa == fb and ta == tb:
        return True, False, None
    wit = {}
    la, lb = fa.split("\n"), fb.split("\n")
    only_maxop = True
    for i in range(max(len(la), len(lb))):
        x = la[i] if i < len(la) else None
        y = lb[i] if i < len(lb) else None
        if x != y:
            if "first_row_diff" not in wit:
                wit["first_row_diff"] = {"row": i, "A": x, "B": y}
            if x is None or y is None:
                only_maxop = False
                continue
            sx, sy = x.split(), y.split()
            if len(sx) != len(sy) or len(sx) < 3:
                only_maxop = False
                continue
            for j, (u, v) in enumerate(zip(sx, sy)):
                if u == v:
                    continue
                if j == 2 and abs(float(u) - float(v)) <= 1.1e-5:
                    continue
                only_maxop = False
    keys = []
    for k in set(ca["current"]) | set(cb["current"]):
        if ca["current"].get(k) != cb["current"].get(k):
            keys.append(k)
    for sec in set(ca) | set(cb):
        if sec != "current" and ca.get(sec) != cb.get(sec):
            keys.append("[" + sec + "]")
    wit["restart_keys_differ"] = sorted(keys)
    if tolerant and only_maxop and not keys:
        return False, True, wit
    return False, False, wit


def _run(spec, segs, cdir, monitors=()):
    from vf.sched_case import run_case
    s = dict(spec)
    s["segments"] = segs
    return run_case(s, cdir, list(monitors))


def work(job, scratch):
    res = {"n": 0, "sigs": [], "events": {}, "violations": [], "samples": [],
           "reached": {}, "notes": []}

    def ev(k, n=1):
        res["events"][k] = res["events"].get(k, 0) + n

    def reach(k):
        res["reached"][k] = res["reached"].get(k, 0) + 1

    if job["kind"] == "pairs":
        for i, p in enumerate(job["pairs"]):
            spec = p["spec"]
            dA = os.path.join(scratch, f"p{i}A")
            dB = os.path.join(scratch, f"p{i}B")
            for d in (dA, dB):
                shutil.rmtree(d, ignore_errors=True)
            rA, iA = _run(spec, p["A"], dA)
            rB, iB = _run(spec, p["B"], dB)
            res["n"] += 1
            bad = [v for v in rA.violations + rB.violations]
            for v in bad:
                v["pair"] = p
                res["violations"].append(v)
            ok_out = all(o in ("done", "killed")
                         for o in iA["outcomes"] + iB["outcomes"])
            if not ok_out and not bad:
                res["violations"].append({
                    "mech": "run-did-not-finish",
                    "what": f"outcomes A={iA['outcomes']} B={iB['outcomes']}",
                    "pair": p})
            if ok_out:
                tolerant = spec.get("engine") == "turtlemd"
                eq, oos, wit = _compare(dA, dB, tolerant)
                reach("pair_compared")
                ev("pairs_compared")
                ev("pairs_" + spec.get("engine", "lattice"))
                if not eq and tolerant and not oos:
                    import tomli
                    with open(os.path.join(dA, "infretis.toml"), "rb") as f:
                        intf = tomli.load(f)["simulation"]["interfaces"]
                    if _near_interface(dA, intf) or _near_interface(dB, intf):
                        oos = True
                if oos:
                    ev("out_of_scope_discarded")
                elif not eq:
                    kill = any("kill_after" in s for s in p["B"])
                    res["violations"].append({
                        "mech": "restart-not-equivalent",
                        "what": "files differ between run A and run B of the "
                                "same seed", "pair": p, "diff": wit,
                        "with_kill": kill})
                else:
                    ev("pairs_identical")
                    nrows = sum(1 for ln in open(os.path.join(
                        dA, "infretis_data.txt")) if not ln.startswith("#"))
                    if nrows >= 2:
                        res["sigs"].append(F.history_sig(
                            rA, dict(spec, policy="fifo", cap=None),
                            repr((p["A"], p["B"]))))
            if len(res["samples"]) < 2:
                res["samples"].append({"spec": F.brief(spec), "A": p["A"],
                                       "B": p["B"], "mode": p["mode"]})
            for d in (dA, dB):
                shutil.rmtree(d, ignore_errors=True)
        return res

    if job["kind"] == "hashpairs":
        import json
        import subprocess
        import sys
        here = os.path.dirname(os.path.dirname(os.path.dirname(
            os.path.abspath(__file__))))

        def sub(spec, cdir, mode, steps, hs):
            sf = cdir + ".spec.json"
            json.dump(spec, open(sf, "w"))
            env = dict(os.environ, PYTHONHASHSEED=str(hs))
            env["PYTHONPATH"] = os.environ.get("VERIF_REPO", "/repo") + \
                ":" + here
            p = subprocess.run([sys.executable, "-m", "vf.sched_sub", sf,
                                cdir, mode, str(steps)], env=env, timeout=600,
                               stdout=subprocess.PIPE, stderr=subprocess.PIPE)
            for line in reversed(p.stdout.decode(errors="replace")
                                 .splitlines()):
                if line.startswith("{"):
                    return json.loads(line)
            return {"outcome": "error", "error": p.stderr.decode(
                errors="replace")[-600:]}
        for i, p in enumerate(job["pairs"]):
            spec, N, k = p["spec"], p["spec"]["steps"], p["k"]
            dA = os.path.join(scratch, f"h{i}A")
            dB = os.path.join(scratch, f"h{i}B")
            for d in (dA, dB):
                shutil.rmtree(d, ignore_errors=True)
            outs = [sub(spec, dA, "first", N, p["hashseeds"][0]),
                    sub(spec, dB, "first", k, p["hashseeds"][1]),
                    sub(spec, dB, "resume", N, p["hashseeds"][2])]
            res["n"] += 1
            wit = {"spec": F.brief(spec), "k": k,
                   "hashseeds": p["hashseeds"]}
            if any(o["outcome"] != "done" for o in outs):
                res["violations"].append(dict(
                    wit, mech="run-did-not-finish",
                    what=f"outcomes {[o['outcome'] for o in outs]} "
                         f"{[o.get('error') for o in outs if o.get('error')]}"
                         [:600]))
                continue
            eq, oos, diff = _compare(dA, dB, False)
            reach("hash_seed_pair_compared")
            ev("hash_seed_pairs")
            if not eq:
                res["violations"].append(dict(
                    wit, mech="result-depends-on-the-process",
                    what="the same seed gives different files in "
                         "interpreters with different PYTHONHASHSEED (run in "
                         "one go vs stopped and continued)", diff=diff))
            else:
                res["sigs"].append(f"hp-{spec['seed']}-{k}")
            for d in (dA, dB):
                shutil.rmtree(d, ignore_errors=True)
        return res

    # multi-worker: determinism + re-issue of the recorded in-flight jobs,
    # over a chain of two kills (the second one shortly after the restart,
    # while re-issued jobs are typically still running)
    from vf.rig_sched import read_restart
    from vf.sched_case import run_case
    from vf.monitors import LockMonitor
    for i, c in enumerate(job["cases"]):
        spec, k = c["spec"], c["kill"]
        N = spec["steps"]
        k2 = 1 + (spec["seed"] % 3)
        if k + k2 >= N - 1:
            k2 = 1
        segs = [{"steps": N, "kill_after": k}, {"steps": N, "kill_after": k2},
                {"steps": N}]

        class Reissue:
            def __init__(self):
                self.issued = {}
                self.recorded = {}

            def after_prep(self, rig, state, out, md_items):
                self.issued.setdefault(rig.segment, []).append(
                    [[int(e) + state._offset for e in out["ens_nums"]],
                     [str(p) for p in out["pnum_old"]]])

            def after_segment(self, rig, si, outc):
                try:
                    rec = read_restart(rig.cdir)["current"]["locked"]
                    self.recorded[si] = [[list(a), [str(x) for x in b]]
                                         for a, b in rec]
                except Exception:
                    self.recorded[si] = None

        def run(cdir):
            m, lm = Reissue(), LockMonitor()
            r, info = run_case(dict(spec, segments=segs), cdir, [m, lm])
            return m, r, info
        d1 = os.path.join(scratch, f"m{i}a")
        d2 = os.path.join(scratch, f"m{i}b")
        for d in (d1, d2):
            shutil.rmtree(d, ignore_errors=True)
        m1, r1, i1 = run(d1)
        res["n"] += 1
        for v in r1.violations:
            res["violations"].append(dict(v, case=c))
        for si in (1, 2):
            rec = m1.recorded.get(si - 1)
            issued = m1.issued.get(si, [])
            if rec is None or i1["outcomes"][:si] != ["killed"] * si or \
                    len(i1["outcomes"]) <= si:
                continue
            reach("reissue_checked")
            ev("reissue_checked")
            ev("recorded_inflight_jobs", len(rec))
            if si == 2:
                ev("reissue_checked_after_second_kill")
            if issued[:len(rec)] != rec:
                res["violations"].append({
                    "mech": "inflight-jobs-not-reissued",
                    "what": f"restart #{si} issued {issued[:len(rec) + 1]} "
                            f"but the restart file recorded {rec}",
                    "case": c, "segments": segs})
        m2, r2, i2 = run(d2)
        if i1["outcomes"] == i2["outcomes"] and i1["outcomes"][-1] == "done":
            eq, _, wit = _compare(d1, d2, False)
            reach("determinism_compared")
            ev("determinism_compared")
            if not eq:
                res["violations"].append({
                    "mech": "not-deterministic", "what": "two runs of the "
                    "same seed, schedule and kill points differ", "case": c,
                    "diff": wit})
            else:
                res["sigs"].append(F.history_sig(r2, spec, str((k, k2))))
        if len(res["samples"]) < 1:
            res["samples"].append({"spec": F.brief(spec), "kills": [k, k2],
                                   "recorded_locked": m1.recorded,
                                   "issued_after_restarts":
                                   {s_: v[:3] for s_, v in m1.issued.items()
                                    if s_ > 0}})
        for d in (d1, d2):
            shutil.rmtree(d, ignore_errors=True)
    return res
