"""C08 - a crash at any point leaves a restartable, consistent state."""
import importlib.util  # noqa: F401
import os
import random
import shutil
import subprocess
import sys
import json

from vf.checks import _schedfam as F

PROPERTY = "C08"
LEVEL = "fault_enumeration"
RULE = ("deterministic base histories of the real scheduler (lattice plug-in "
        "engine, 1-3 workers, delete_old off / on / delete_old_all, sh and wf, "
        "a clean restart or a kill in the middle) are run once with the "
        "file-system effect recorder: before EVERY effect of EVERY step (open "
        "for write/append, rename from shutil.move, remove, rmdir, mkdir) the "
        "directory tree is copied - that copy is what a crash of the main "
        "process before that effect leaves on disk; crashes INSIDE a write are "
        "produced by cutting the file that effect opened to 4 prefixes of "
        "what it eventually wrote; a crash right AFTER a rename is the tree "
        "before it with the rename applied to what had reached the disk "
        "(catches a rename of a file that is still open and unflushed). "
        "Every crash state is then restarted: the "
        "restart file must parse, setup_config+setup_internal must load every "
        "active path with non-zero weight and all files, the recorded "
        "in-flight jobs must be re-issued first, the run must continue for "
        "25-40 steps without raising, and afterwards every replaced path must "
        "have exactly one data row and no live path one. A sample of crash "
        "states is crashed a second time after the restart. In addition the "
        "tree right after EVERY restart-file write of long histories (60-110 "
        "steps, 4-7 ensembles) is restarted and continued for 2-5 steps. "
        "Non-trivial = "
        "crash state inside a step that accepted a path or deleted files; "
        "distinct = distinct (history, effect index, variant).")
ASSUMPTIONS = [
    "the main process is modelled by treat_output and the end-of-run restart "
    "write (its file-system effects); worker-side MD files are not crash "
    "points of the main process",
    "earlier files are closed when a later effect happens, so the copied tree "
    "is the on-disk state; torn files model a crash inside a write",
    "restart = fresh process emulated by resetting infretis' module/class "
    "level state (a sample is re-checked in a real fresh interpreter)",
]
MUST_REACH = ["crash_state_probed", "torn_state_probed", "second_crash",
              "boundary_state_probed", "after_rename_state_probed"]
JOB_TIMEOUT = 1700


def plan(tier, seed):
    rng = random.Random(f"C08-{seed}")
    jobs = []
    nbase = 16 if tier == "quick" else 160
    for j in range(nbase):
        n = rng.randint(3, 5)
        w = rng.choice([1, 1, 2, 3]) if n > 3 else rng.choice([1, 2])
        w = min(w, n - 1)
        N = rng.randint(14, 26)
        spec = {"n_intf": n, "workers": w, "steps": N,
                "moves": ["sh"] + [rng.choice(["sh", "wf"])
                                   for _ in range(n - 1)],
                "seed": rng.randrange(2 ** 31), "policy": rng.choice(
                    ["fifo", "random", "lifo"]),
                "adv_seed": rng.randrange(2 ** 31), "maxlength": 300,
                "wall": -2}
        d = j % 3
        if d >= 1:
            spec["delete_old"] = True
        if d == 2:
            spec["delete_old_all"] = True
        k = rng.randint(max(w, 4), N - 4)
        if rng.random() < 0.5:
            spec["segments"] = [{"steps": k}, {"steps": N}]
        else:
            spec["segments"] = [{"steps": N, "kill_after": k}, {"steps": N}]
        jobs.append({"kind": "base", "spec": spec, "hashseed": 0,
                     "budget": 32 if tier == "quick" else 220,
                     "seed": rng.randrange(2 ** 31)})
    # step-boundary states of long histories: the tree right after EVERY
    # restart-file write (what a crash between two steps leaves), probed with
    # a short continuation.  Cheap, so rare step kinds (a rejected move after
    # a pick that displaced a path, ...) are reached as well.
    nb = 16 if tier == "quick" else 160
    for j in range(nb):
        n = rng.randint(4, 7)
        w = rng.randint(1, min(3, n - 1))
        N = rng.randint(60, 110)
        spec = {"n_intf": n, "workers": w, "steps": N,
                "moves": ["sh"] + [rng.choice(["sh", "sh", "wf"])
                                   for _ in range(n - 1)],
                "seed": rng.randrange(2 ** 31), "policy": rng.choice(
                    F.POLICIES), "adv_seed": rng.randrange(2 ** 31),
                "maxlength": rng.choice([300, 40]), "wall": -2,
                "delete_old": j % 2 == 1, "n_jumps": rng.choice([1, 2])}
        if rng.random() < 0.4:
            k = rng.randint(max(w, 4), N - 4)
            spec["segments"] = [{"steps": N, "kill_after": k}, {"steps": N}]
        jobs.append({"kind": "boundary", "spec": spec, "hashseed": 0,
                     "seed": rng.randrange(2 ** 31)})
    return jobs


class _Boundary:
    """Copies the run directory after every restart-file write."""

    def __init__(self, snapdir):
        self.snapdir = snapdir
        self.snaps = []

    def after_write_toml(self, rig, state, out, *a, **kw):
        d = os.path.join(self.snapdir, str(len(self.snaps)))
        shutil.copytree(rig.cdir, d, symlinks=True)
        self.snaps.append((d, int(state.cstep), rig.segment))


def _boundary(job, scratch):
    from vf.sched_case import run_case
    from vf.crash_probe import probe
    rng = random.Random(job["seed"])
    spec = job["spec"]
    res = {"n": 0, "sigs": [], "events": {}, "violations": [], "samples": [],
           "reached": {}, "notes": []}

    def ev(k, n=1):
        res["events"][k] = res["events"].get(k, 0) + n
    cdir = os.path.join(scratch, "bbase")
    snapdir = os.path.join(scratch, "bsnaps")
    os.makedirs(snapdir, exist_ok=True)
    mon = _Boundary(snapdir)
    from vf.monitors import LockMonitor
    rig, info = run_case(spec, cdir, [mon, LockMonitor()])
    if rig.violations or any(o not in ("done", "killed")
                             for o in info["outcomes"]):
        for v in rig.violations:
            res["violations"].append(dict(v, spec=spec))
        res["notes"].append(f"base history outcomes {info['outcomes']}")
        return res
    ev("boundary_histories")
    for (d, cstep, seg) in mon.snaps:
        more = rng.randint(2, 5)
        out = probe(d, more, policy="random", adv_seed=rng.randrange(10 ** 6))
        res["n"] += 1
        res["reached"]["boundary_state_probed"] = \
            res["reached"].get("boundary_state_probed", 0) + 1
        ev("boundary_states")
        ev("boundary_stage_" + out["stage"])
        if out["info"].get("locked"):
            ev("boundary_states_with_jobs_in_flight")
        res["sigs"].append(f"b{spec['seed']}-{cstep}-{seg}")
        for pr in out["problems"]:
            res["violations"].append({
                "history": F.brief(spec), "cstep": cstep, "segment": seg,
                "mech": pr["mech"] + "@step-boundary", "what": pr["what"],
                "tb": pr.get("tb"), "restart_info": out.get("info")})
        shutil.rmtree(d, ignore_errors=True)
    return res


def _subprocess_probe(cdir, more):
    env = dict(os.environ)
    try:
        p = subprocess.run([sys.executable, "-m", "vf.crash_probe", cdir,
                            str(more)], env=env, timeout=300,
                           stdout=subprocess.PIPE, stderr=subprocess.PIPE)
    except subprocess.TimeoutExpired:
        return None
    for line in reversed(p.stdout.decode(errors="replace").splitlines()):
        if line.startswith("{"):
            return json.loads(line)
    return None


def work(job, scratch):
    if job["kind"] == "boundary":
        return _boundary(job, scratch)
    from vf.sched_case import run_case
    from vf.fsfault import Recorder, torn_variants, after_rename_variant
    from vf.crash_probe import probe
    rng = random.Random(job["seed"])
    spec = job["spec"]
    res = {"n": 0, "sigs": [], "events": {}, "violations": [], "samples": [],
           "reached": {}, "notes": []}

    def ev(k, n=1):
        res["events"][k] = res["events"].get(k, 0) + n

    def reach(k):
        res["reached"][k] = res["reached"].get(k, 0) + 1
    cdir = os.path.join(scratch, "base")
    snapdir = os.path.join(scratch, "snaps")
    rec = Recorder(cdir, snapdir)
    # the in-flight record of every restart file written must be the jobs
    # really in flight (a crash state can only be judged against what the
    # restart file says, so the file itself is checked while it is written)
    from vf.monitors import LockMonitor
    rig, info = run_case(spec, cdir, [rec, LockMonitor()])
    rec.armed = False
    rec.final_snapshot()
    if rig.violations or any(o not in ("done", "killed")
                             for o in info["outcomes"]):
        for v in rig.violations:
            res["violations"].append(dict(v, spec=spec))
        res["notes"].append(f"base history outcomes {info['outcomes']}")
        return res
    effects = rec.effects
    ev("base_histories")
    ev("effects_recorded", len(effects))
    for e in effects:
        ev("effect_" + e["event"])
    # choose crash states: every effect of the first two steps of each kind,
    # a sample of the rest, within the budget
    by_kind = {}
    for e in effects:
        by_kind.setdefault(e["kind"], [])
        if e["step"] not in by_kind[e["kind"]]:
            by_kind[e["kind"]].append(e["step"])
    full_steps = set()
    for kind, steps in by_kind.items():
        full_steps.update(steps[:2])
    # steps that remove files (delete_old) are a kind of their own
    for e in effects:
        if e["event"] in ("os.remove", "os.rmdir") and \
                e["path"].startswith("load"):
            full_steps.add(e["step"])
    chosen = [e["idx"] for e in effects if e["step"] in full_steps]
    rest = [e["idx"] for e in effects if e["step"] not in full_steps]
    rng.shuffle(rest)
    chosen += rest[: max(0, job["budget"] // 3)]
    rng.shuffle(chosen)
    states = []
    for i in chosen:
        states.append((i, "before", None))
        if effects[i]["event"].startswith("open-"):
            for tag, build in torn_variants(snapdir, effects, i):
                states.append((i, tag, build))
        for tag, build in after_rename_variant(snapdir, effects, i):
            states.append((i, tag, build))
    states = states[: job["budget"] * 2]
    # the rename that publishes the restart file, of EVERY step: the state
    # right after it (outside the budget, one state per step)
    have = {(i, tag) for i, tag, _ in states}
    for e in effects:
        if e["event"] == "os.rename" and \
                e.get("dst", "").endswith("restart.toml"):
            for tag, build in after_rename_variant(snapdir, effects,
                                                   e["idx"]):
                if (e["idx"], tag) not in have:
                    states.append((e["idx"], tag, build))
    nsecond = 0
    for (i, tag, build) in states:
        eff = effects[i]
        cd = os.path.join(scratch, "crash")
        shutil.rmtree(cd, ignore_errors=True)
        if build is None:
            shutil.copytree(os.path.join(snapdir, str(i)), cd, symlinks=True)
        else:
            build(cd)
        more = rng.randint(25, 40)
        out = probe(cd, more, policy="random", adv_seed=rng.randrange(10 ** 6))
        res["n"] += 1
        reach("crash_state_probed")
        if tag == "after-rename":
            reach("after_rename_state_probed")
            ev("after_rename_states")
        elif build is not None:
            reach("torn_state_probed")
            ev("torn_states")
        ev("crash_states")
        ev("stage_" + out["stage"])
        wit_base = {"history": F.brief(spec), "effect_index": i,
                    "effect": eff, "variant": tag,
                    "effects_of_step": [f"{e['idx']}:{e['event']}:{e['path']}"
                                        for e in effects
                                        if e["step"] == eff["step"]],
                    "restart_info": out.get("info")}
        if out["stage"] == "no-restart-file":
            ev("no_restart_file_yet")
        self_kind = eff["kind"]
        nontrivial = "-acc" in self_kind or eff["event"] in (
            "os.remove", "os.rmdir")
        if nontrivial:
            res["sigs"].append(f"{spec['seed']}-{i}-{tag}")
        for pr in out["problems"]:
            res["violations"].append(dict(
                wit_base, mech=_mech(pr, eff, tag, effects), what=pr["what"],
                tb=pr.get("tb")))
        # second crash: crash the continued run again at its first accepted
        # step boundary by simply restarting it once more from its own files
        if not out["problems"] and out["stage"] == "continued" and \
                nsecond < 6 and rng.random() < 0.15:
            nsecond += 1
            cd2 = os.path.join(scratch, "crash2")
            shutil.rmtree(cd2, ignore_errors=True)
            rec2 = Recorder(cd, os.path.join(scratch, "snaps2"))
            shutil.rmtree(os.path.join(scratch, "snaps2"),
                          ignore_errors=True)
            os.makedirs(os.path.join(scratch, "snaps2"))
            from vf import rig_sched as R
            R.set_restart_steps(cd, out["info"]["cstep"] + more + 6)
            r2 = R.Rig(cd, [rec2], policy="fifo")
            try:
                r2.run_segment("restart.toml")
            except BaseException as exc:
                res["violations"].append(dict(
                    wit_base, mech="second-segment-raised",
                    what=f"{type(exc).__name__}: {exc}"))
                continue
            rec2.armed = False
            rec2.final_snapshot()
            Recorder._active = rec
            effs2 = rec2.effects
            picks = [e for e in effs2 if "-acc" in (e["kind"] or "")]
            pool = picks or effs2
            for e2 in rng.sample(pool, min(4, len(pool))):
                shutil.rmtree(cd2, ignore_errors=True)
                shutil.copytree(os.path.join(scratch, "snaps2",
                                             str(e2["idx"])), cd2,
                                symlinks=True)
                out2 = probe(cd2, 25, policy="fifo")
                res["n"] += 1
                reach("second_crash")
                ev("second_crash_states")
                for pr in out2["problems"]:
                    res["violations"].append(dict(
                        wit_base, mech=_mech(pr, e2, "before", effs2) +
                        ":second-crash", what=pr["what"], second_effect=e2,
                        tb=pr.get("tb")))
            shutil.rmtree(os.path.join(scratch, "snaps2"), ignore_errors=True)
        if len(res["samples"]) < 1:
            res["samples"].append({k: wit_base[k] for k in
                                   ("history", "effect", "variant",
                                    "effects_of_step")})
    # a few crash states re-checked in a real fresh interpreter
    for (i, tag, build) in states[:2]:
        if build is not None:
            continue
        cd = os.path.join(scratch, "crash")
        shutil.rmtree(cd, ignore_errors=True)
        shutil.copytree(os.path.join(snapdir, str(i)), cd, symlinks=True)
        a = probe(cd, 12, policy="fifo")
        shutil.rmtree(cd, ignore_errors=True)
        shutil.copytree(os.path.join(snapdir, str(i)), cd, symlinks=True)
        b = _subprocess_probe(cd, 12)
        if b is not None:
            ev("fresh_interpreter_crosschecks")
            ma = sorted(p["mech"] for p in a["problems"])
            mb = sorted(p["mech"] for p in b["problems"])
            if ma != mb or a["stage"] != b["stage"]:
                res["notes"].append(
                    f"in-process probe {a['stage']}/{ma} differs from fresh "
                    f"interpreter {b['stage']}/{mb} at effect {i}")
                res.setdefault("inconclusive", []).append(
                    "in-process restart emulation disagrees with a fresh "
                    "interpreter")
    shutil.rmtree(snapdir, ignore_errors=True)
    return res


def _mech(pr, eff, tag, effects):
    """Mechanism tag = problem + where in the step the crash happened."""
    step = eff["step"]
    seq = [e for e in effects if e["step"] == step]
    pos = "other"
    idx = eff["idx"]
    first_move = next((e["idx"] for e in seq if e["event"] == "os.rename"),
                      None)
    data_app = next((e["idx"] for e in seq if e["event"] == "open-a" and
                     "infretis_data" in e["path"]), None)
    rst = next((e["idx"] for e in seq if "restart.toml" in e["path"]), None)
    if rst is not None and idx == rst and tag != "before":
        pos = "inside-restart-write"
    elif rst is not None and idx > rst:
        pos = "after-restart-write"
    elif data_app is not None and (idx > data_app or
                                   (idx == data_app and tag != "before")):
        pos = "after-data-append-before-restart-write"
    elif first_move is not None and idx > first_move:
        pos = "after-first-move-before-data-append"
    elif first_move is not None:
        pos = "before-first-move"
    return f"{pr['mech']}@{pos}"
