"""C09 - accepted paths belong to their ensemble; rejections change nothing."""
import importlib.util  # noqa: F401
import os
import random
import shutil

from vf.checks import _schedfam as F

PROPERTY = "C09"
LEVEL = "exploration"
RULE = ("(a) MoveMonitor rides on scheduler-rig histories (lattice engine, "
        "2-7 ensembles, sh/wf, caps, n_jumps 1-6, tight length limits, "
        "lambda_-1, zero swaps): for every move returned by the real run_md "
        "it evaluates the membership predicate written from the property "
        "text on accepted paths (sides of first/last frame, interior inside, "
        "crossing, length limit, shooting point contained, frames in time "
        "order = neighbouring sites + monotone file indices + stored order = "
        "order of the referenced frame, non-zero own weight), compares the "
        "old path (frames, configs, velocity flags, file hashes) after every "
        "rejection, checks shooting indices and accept <=> 'ACC'. (b) "
        "threshold probing of the real shoot(): a scripted engine fixes the "
        "unbounded backward/forward lengths (b,f) and a scripted generator "
        "puts the draw at n_old/n_new*(1+-1e-9), n_old/(n_new+-1)*(1+-1e-9) "
        "over a grid of (L_old, shooting index, b, f). Non-trivial history = "
        ">=1 accepted and >=1 rejected move; distinct = distinct "
        "(configuration, completion order, events) resp. distinct grid point.")
ASSUMPTIONS = [
    "order parameters are integers, interfaces half-integers: the code's "
    "</<= conventions at exact equality are not fixed by the property",
    "threshold probing keeps the hard length limit two frames above the "
    "trial length",
]
MUST_REACH = ["membership", "reject_untouched", "shooting_point",
              "threshold", "accept_flag"]
JOB_TIMEOUT = 1500


def plan(tier, seed):
    rng = random.Random(f"C09-{seed}")
    njobs = 32 if tier == "quick" else 500
    jobs = []
    for j in range(njobs):
        specs = []
        for _ in range(5):
            s = F.gen_spec(rng, tier, steps=(60, 160), restarts=False)
            s["n_jumps"] = rng.choice([1, 2, 3, 6])
            s["maxlength"] = rng.choice([2000, 60, 30, 15, 9])
            if rng.random() < 0.2:
                # permeability [0-] with lambda_minus_one exactly 0.0 (the
                # axis is shifted so that no lattice site sits on it)
                s["lm1"], s["shift"] = -1.5, 1.5
            specs.append(s)
        jobs.append({"kind": "rig", "hashseed": rng.randrange(1000),
                     "specs": specs})
    # a real MD engine (TurtleMD double well) with 1-3 subcycles and tight
    # length limits: membership of whatever the moves accept
    for j in range(6 if tier == "quick" else 60):
        specs = []
        for _ in range(2):
            specs.append({"engine": "turtlemd", "n_intf": 8, "workers": 1,
                          "steps": rng.randint(25, 45),
                          "seed": rng.randrange(2 ** 31), "policy": "fifo",
                          "adv_seed": 0, "cap": None,
                          "subcycles": rng.choice([1, 2, 3, 3]),
                          "maxlength": rng.choice([40, 60, 120, 2000]),
                          "n_jumps": rng.choice([2, 4]),
                          "moves": rng.choice([
                              ["sh"] * 8,
                              ["sh", "sh", "wf", "wf", "wf", "wf", "wf",
                               "wf"]])})
        jobs.append({"kind": "rig", "hashseed": rng.randrange(1000),
                     "specs": specs})
    # zero swaps with wire fencing in [0+], a narrow band and jumping frames
    # (driven through the real run_md by the C11 direct harness)
    for j in range(8 if tier == "quick" else 64):
        jobs.append({"kind": "zswf", "wf0": True, "hashseed": 0,
                     "seed": rng.randrange(2 ** 31),
                     "count": 60 if tier == "quick" else 150})
    # ... and the plain / QuanTIS / lambda_-1 zero swaps of the same harness
    # (length limits right at the lengths the new paths will have)
    for j in range(12 if tier == "quick" else 64):
        jobs.append({"kind": "zswf", "wf0": False, "hashseed": 0,
                     "seed": rng.randrange(2 ** 31),
                     "count": 100 if tier == "quick" else 200})
    grid = []
    for L_old in range(3, 11 if tier == "quick" else 16):
        for b in range(2, 9 if tier == "quick" else 12):
            for f in range(2, 9 if tier == "quick" else 12):
                grid.append((L_old, b, f))
    rng.shuffle(grid)
    per = max(1, len(grid) // 16)
    for i in range(0, len(grid), per):
        jobs.append({"kind": "threshold", "hashseed": 0, "grid": grid[i:i + per],
                     "seed": rng.randrange(2 ** 31)})
    return jobs


def _mons(spec, cdir):
    from vf.monitors import MoveMonitor
    import infretis.core.tis as itis

    class M(MoveMonitor):
        def before_run_md(self, rig, md_items):
            MoveMonitor.before_run_md(self, rig, md_items)
            self._acc = None
            orig = itis.select_shoot
            mon = self

            def spy(picked, *a, **kw):
                out = orig(picked, *a, **kw)
                mon._acc = (out[0], out[2], [t.status for t in out[1]])
                return out
            self._orig = orig
            itis.select_shoot = spy

        def after_run_md(self, rig, out):
            itis.select_shoot = self._orig
            if self._acc is not None:
                rig.reach("accept_flag")
                acc, status, sts = self._acc
                if bool(acc) != (status == "ACC") or status != out["status"]:
                    rig.violate("accept-flag-status-mismatch",
                                f"move returned accept={acc} with status "
                                f"{status} (md_items status {out['status']})")
            MoveMonitor.after_run_md(self, rig, out)
    return [M(check_zero_swap=False, subcycles=spec.get('subcycles', 1),
              shift=spec.get('shift', 0.0),
              lattice=spec.get('engine') != 'turtlemd')]


def _nontrivial(rig, spec, mons):
    ev = rig.events
    acc = sum(v for k, v in ev.items() if k.startswith("moves_") and
              k.endswith("_ACC"))
    tot = sum(v for k, v in ev.items() if k.startswith("moves_"))
    return acc >= 1 and tot > acc


class _Rgen:
    def __init__(self, idx, r):
        self.idx, self.r, self.calls = idx, r, []

    def integers(self, lo, hi=None, **kw):
        self.calls.append(("integers", lo, hi))
        return self.idx

    def random(self, *a):
        self.calls.append(("random",))
        return self.r


def _threshold(job, scratch):
    import numpy as np
    from infretis.classes.path import load_path
    from infretis.core.tis import shoot
    from vf.plugins.lattice import ScriptedEngine, SiteOrder
    from vf.rig_sched import write_lat_path
    res = {"n": 0, "sigs": [], "events": {}, "violations": [], "samples": [],
           "reached": {}, "notes": []}
    rng = random.Random(job["seed"])
    wdir = os.path.join(scratch, "w")
    os.makedirs(wdir, exist_ok=True)
    for (L_old, b, f) in job["grid"]:
        pdir = os.path.join(scratch, f"old{L_old}")
        if not os.path.isdir(pdir):
            write_lat_path(pdir, [0] + [1] * (L_old - 2) + [0])
        n_old, L_new = L_old - 2, b + f - 1
        n_new = L_new - 2
        ratio = n_old / n_new
        cands = set()
        for base in (ratio, n_old / (n_new + 1),
                     n_old / (n_new - 1) if n_new > 1 else None):
            if base is None:
                continue
            for eps in (-1e-9, 1e-9):
                r = base * (1 + eps)
                if 0 < r < 1:
                    cands.add(r)
        cands.update([rng.random(), 0.999999, 1e-6])
        for r in sorted(cands):
            for fe in ("R", "L"):
                path = load_path(pdir)
                path.generated = ("sh", 0.0, 0, 0)
                path.maxlen = 1000
                path.path_number = 5
                idx = rng.randint(1, L_old - 2)
                eng = ScriptedEngine(back=b, forw=f, forw_end=fe)
                eng.order_function = SiteOrder()
                eng.exe_dir = wdir
                eng.rgen = np.random.default_rng(0)
                rg = _Rgen(idx, r)
                ens = {"interfaces": (0.5, 0.5, 2.5), "rgen": rg,
                       "ens_name": "001", "start_cond": "L",
                       "mc_move": "sh",
                       "tis_set": {"maxlength": L_new + 2 +
                                   rng.choice([0, 1, 50]),
                                   "allowmaxlength": False}}
                acc, trial, status = shoot(ens, path, eng,
                                           start_cond=("L",))
                res["n"] += 1
                res["reached"]["threshold"] = \
                    res["reached"].get("threshold", 0) + 1
                want = r <= ratio
                key = f"thr_{'acc' if acc else status}"
                res["events"][key] = res["events"].get(key, 0) + 1
                case = {"L_old": L_old, "back": b, "forw": f, "L_new": L_new,
                        "r": r, "n_old/n_new": ratio, "forw_end": fe,
                        "idx": idx, "status": status, "accepted": bool(acc),
                        "rng_calls": rg.calls}
                if ("random",) not in rg.calls:
                    res["violations"].append(dict(
                        case, mech="length-draw-missing",
                        what="shoot() did not draw the length bound from "
                             "the ensemble stream"))
                if bool(acc) != (status == "ACC"):
                    res["violations"].append(dict(
                        case, mech="accept-flag-status-mismatch",
                        what=f"accept={acc} status={status}"))
                if acc and trial.length != L_new:
                    res["violations"].append(dict(
                        case, mech="trial-length", what=f"accepted trial has "
                        f"{trial.length} frames, engine produced {L_new}"))
                if bool(acc) != want:
                    if (not acc) and want and status in ("FTL", "BTL") and \
                            int(n_old / r) + 2 == L_new:
                        mech = "shoot-length-bound-off-by-one"
                    else:
                        mech = "shoot-acceptance-threshold"
                    res["violations"].append(dict(
                        case, mech=mech, where="infretis/core/tis.py:shoot",
                        what=f"r={r!r} vs n_old/n_new={ratio!r}: property "
                             f"says {'accept' if want else 'reject'}, shoot "
                             f"returned {status}"))
                if abs(r - ratio) < 1e-6 or abs(r - n_old / (n_new + 1)) < 1e-6:
                    res["sigs"].append(f"thr-{L_old}-{b}-{f}-{r:.12f}-{fe}")
                if len(res["samples"]) < 1:
                    res["samples"].append(case)
        for fn in os.listdir(wdir):
            os.remove(os.path.join(wdir, fn))
    _bounded_minus(res, rng, scratch, wdir)
    return res


def _bounded_minus(res, rng, scratch, wdir):
    """shoot() in a [0-]-type ensemble (start condition R only) whose left
    interface is finite: scripted trials leave through either side on either
    leg; whatever shoot() accepts must be a member (start R, end R, interior
    inside, middle interface crossed is the code's own extra demand and not
    judged here)."""
    import numpy as np
    from infretis.classes.path import load_path
    from infretis.core.tis import shoot
    from vf.monitors import membership
    from vf.plugins.lattice import ScriptedEngine, SiteOrder
    from vf.rig_sched import write_lat_path
    pdir = os.path.join(scratch, "oldminus")
    sites = [1, 0, -1, -2, -1, 0, 1]
    write_lat_path(pdir, sites)
    for idx in range(1, len(sites) - 1):
        for be in ("R", "L"):
            for fe in ("R", "L"):
                b, f = rng.randint(2, 6), rng.randint(2, 6)
                path = load_path(pdir)
                path.generated = ("sh", 0.0, 0, 0)
                path.maxlen = 1000
                path.path_number = 7
                eng = ScriptedEngine(back=b, forw=f, forw_end=fe, back_end=be)
                eng.order_function = SiteOrder()
                eng.exe_dir = wdir
                eng.rgen = np.random.default_rng(0)
                rg = _Rgen(idx, 1e-6)
                ens = {"interfaces": (-2.5, -1.0, 0.5), "rgen": rg,
                       "ens_name": "000", "start_cond": ("R",),
                       "mc_move": "sh",
                       "tis_set": {"maxlength": 100,
                                   "allowmaxlength": False}}
                acc, trial, status = shoot(ens, path, eng, start_cond=("R",))
                res["n"] += 1
                res["reached"]["bounded_minus"] = \
                    res["reached"].get("bounded_minus", 0) + 1
                key = f"bm_{be}{fe}_{'acc' if acc else status}"
                res["events"][key] = res["events"].get(key, 0) + 1
                case = {"family": "bounded-minus", "site": sites[idx],
                        "back": b, "forw": f, "back_end": be, "forw_end": fe,
                        "status": status, "accepted": bool(acc),
                        "orders": [float(pp.order[0])
                                   for pp in trial.phasepoints]}
                if bool(acc) != (status == "ACC"):
                    res["violations"].append(dict(
                        case, mech="accept-flag-status-mismatch",
                        what=f"accept={acc} status={status}"))
                if acc:
                    for mech, text in membership(trial, ens, -1, lattice=False):
                        res["violations"].append(dict(
                            case, mech=mech, what="bounded [0-]: " + text))
                res["sigs"].append(f"bm-{sites[idx]}-{be}{fe}-{status}")
                for fn in os.listdir(wdir):
                    os.remove(os.path.join(wdir, fn))


def work(job, scratch):
    if job["kind"] == "zswf":
        from vf.checks import c11
        return c11._direct(job, scratch)
    if job["kind"] == "threshold":
        return _threshold(job, scratch)
    return F.generic_work(job, scratch, _mons, _nontrivial)
