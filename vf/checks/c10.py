"""C10 - wire-fencing weights are exact, symmetric and drive segment choice.

Direct drive of the real ``wirefence_weight_and_pick``, ``compute_weight`` and
``calc_cv_vector`` (infretis/core/tis.py) on generated order-parameter
sequences; the oracle is the independent segment decomposition in
``vf.oracles.wfseg`` (classify frames, group maximal inside runs, classify by
the sides of the outside neighbours).  The selection law is checked exactly
with a scripted generator (an object whose ``.random()`` returns the chosen u).
"""
import importlib.util  # noqa: F401  (infretis.factory needs the submodule)
import hashlib
import itertools
import math
import random

PROPERTY = "C10"
LEVEL = "exploration"
RULE = (
    "case = one order-parameter sequence with one interface set.  Family "
    "'exh': EVERY sequence up to a length bound over the alphabet of all "
    "distinguishable positions relative to (lambda_0, lambda_i, cap): end "
    "frames over 7 symbols (<l0, ==l0, between, ==li, inside, ==cap, >cap), "
    "interior frames over 5 (<li, ==li, inside, ==cap, >cap), and the 5-symbol "
    "variant with lambda_0 == lambda_i ([0+]); quick: length <= 7, thorough: "
    "<= 8 (7/5-symbol) and <= 9 (5-symbol).  Family 'rand': lengths 1-40, iid / random-walk / real-valued "
    "draws over the thresholds, their midpoints and outer values (equality "
    "with an interface and jumps over the region are frequent), 2-6 "
    "interfaces, cap absent / between interfaces / at or beyond the last, "
    "EVERY left<right threshold pair, EVERY sh/wf move vector (sampled above "
    "4 plus-ensembles), lambda_minus_one on and off, valid [0-] paths.  For "
    "every case: count, weight (x2), positivity, reversal symmetry, weight "
    "vector, and the seed segment for u at every cumulative-interval boundary "
    "+-1e-9 and +-1ulp, the exact boundary (either neighbour accepted), 0, "
    "1-2^-53, interval midpoints and seeded random u.  Non-trivial = the "
    "sequence has at least one sub-path (maximal inside run with an outside "
    "neighbour on both sides) for a probed region; distinct = distinct "
    "(rank string of the frames among the thresholds, interface count, cap "
    "position).  Signatures are capped per job, so distinct_nontrivial is a "
    "lower bound; events.nontrivial_cases is the uncapped count.  Family "
    "'rig': scheduler-rig histories with the lattice engine (3-7 ensembles, "
    "sh/wf, half with wf in [0+] and a cap below the last interface): after "
    "every accepted move the weight vector and the (min, max) that run_md "
    "reports must equal the oracle's on the frames the path holds.")
ASSUMPTIONS = [
    "inside = lambda_i <= op < cap; an end point is on the left outer side iff "
    "op <= lambda_0 and on the right iff op >= cap (the documented convention "
    "of Path.get_start_point/get_end_point); 'crossing' of a shooting "
    "ensemble = max(op) >= lambda_i",
    "a u exactly equal to an interior cumulative boundary has probability 0; "
    "either neighbouring segment is accepted there (counted, not judged)",
    "a path with an end point strictly between lambda_0 and cap does not "
    "connect the two outer sides, so the property gives it the undoubled "
    "weight (the sampler itself only weighs complete paths)",
    "high_acc_swap is not driven: the property states nothing about it "
    "beyond the weights it consumes",
]
MUST_REACH = ["wf_count", "wf_reversal", "compute_weight", "positivity",
              "segment_membership", "selection_law", "cv_vector", "cv_minus",
              "acc_weight_vector", "acc_reported_extremes",
              "loaded_weight_vector"]
JOB_TIMEOUT = 1500
SIG_CAP = 4000          # signatures reported per job
KNOWN_TAG = "wf-weight-doubled-with-undefined-endpoint"


# ------------------------------------------------------------------ planning
def _exh_items(a, nmax, chunk):
    """All (a, n, prefix) work items; ends over `a` symbols, interior over 5."""
    items = []
    for n in range(1, nmax + 1):
        radix = [a] + [5] * (n - 2) + ([a] if n > 1 else [])
        d, size = 0, math.prod(radix)
        while size > chunk:
            size //= radix[d]
            d += 1
        for pre in itertools.product(*[range(r) for r in radix[:d]]):
            items.append({"a": a, "n": n, "prefix": list(pre), "size": size})
    return items


def plan(tier, seed):
    rng = random.Random(f"C10-{seed}")
    quick = tier == "quick"
    items = (_exh_items(7, 7 if quick else 8, 3200 if quick else 31000) +
             _exh_items(5, 7 if quick else 9, 3200 if quick else 31000))
    nexh = 16 if quick else 64
    bins = [[0, []] for _ in range(nexh)]
    for it in sorted(items, key=lambda x: -x["size"]):
        b = min(bins, key=lambda x: x[0])
        b[0] += it["size"]
        b[1].append(it)
    jobs = [{"kind": "exh", "items": b[1], "seed": rng.randrange(2 ** 31),
             "hashseed": rng.randrange(100)} for b in bins if b[1]]
    nrand, count = (16, 1600) if quick else (96, 4500)
    for _ in range(nrand):
        jobs.append({"kind": "rand", "seed": rng.randrange(2 ** 31),
                     "count": count, "hashseed": rng.randrange(100)})
    # the same postcondition on the paths real moves produce: scheduler-rig
    # histories (lattice engine), half of them with wire fencing in [0+] and
    # a cap below the last interface
    from vf.checks import _schedfam as F
    rjobs = F.plan_jobs(tier, seed, "C10r", quick_jobs=12, thorough_jobs=200,
                        cases_per_job=4, nmin=3)
    for job in rjobs:
        for spec in job["specs"]:
            if rng.random() < 0.5:
                spec["moves"][1] = "wf"
                spec.pop("subcycles", None)
                lo = max(i for i, m in enumerate(spec["moves"]) if m == "wf")
                spec["cap"] = rng.randint(lo, spec["n_intf"] - 1) + 0.5
                spec.pop("shift", None)
                spec.pop("lm1", None)
                if rng.random() < 0.3:
                    spec["shift"] = -spec["cap"]   # interface_cap == 0.0
    return jobs + rjobs


def _mons(spec, cdir):
    from vf.monitors import WeightVectorMonitor
    return [WeightVectorMonitor()]


def _nontrivial(rig, spec, mons):
    return rig.reached.get("acc_weight_vector", 0) > 5


# ------------------------------------------------------------------ harness
class Scripted:
    """The 'generator' handed to the code under test: returns the chosen u."""

    def __init__(self, u):
        self.u, self.calls = u, 0

    def random(self):
        self.calls += 1
        return self.u


class Rec:
    def __init__(self):
        self.v, self.known, self.ev, self.reached = [], [], {}, {}
        self.sigs, self.samples, self.n = set(), [], 0

    def hit(self, name, k=1):
        self.ev[name] = self.ev.get(name, 0) + k

    def reach(self, name, k=1):
        self.reached[name] = self.reached.get(name, 0) + k

    def bad(self, mech, what, **lit):
        w = {"mech": mech, "what": what}
        w.update(lit)
        if mech == KNOWN_TAG:
            self.hit("known_undefined_endpoint_doubled")
            if len(self.known) < 2:
                self.known.append(w)
        else:
            self.hit("violations_total")
            if len(self.v) < 40 and \
                    sum(1 for x in self.v if x["mech"] == mech) < 4:
                self.v.append(w)


_T = None


def mk_path(orders, extra=False):
    """A real infretis Path whose frame k carries config ('f', k)."""
    global _T
    from infretis.classes.path import Path
    from infretis.classes.system import System
    if _T is None:
        _T = System()
    p = Path()
    for k, x in enumerate(orders):
        s = _T.copy()
        s.order = [x, -7.0 * k] if extra else [x]
        s.config = ("f", k)
        p.phasepoints.append(s)
    return p


def _frames(path):
    return [(s.config[1], s.order[0]) for s in path.phasepoints]


def probe_us(quals, rng):
    """u values: every boundary +-eps and +-1ulp, exact boundaries, extremes,
    midpoints, two seeded random draws."""
    n = sum(q[2] for q in quals)
    us, cum = {0.0, 1.0 - 2.0 ** -53, rng.random(), rng.random()}, 0
    bounds = [0.0]
    for q in quals:
        cum += q[2]
        bounds.append(cum / n)
    for lo, hi in zip(bounds, bounds[1:]):
        us.add((lo + hi) / 2)
    for b in bounds:
        for u in (b - 1e-9, b + 1e-9, math.nextafter(b, -1.0),
                  math.nextafter(b, 2.0), b):
            if 0.0 <= u < 1.0:
                us.add(u)
    return sorted(us)


def check_region(rec, tis, O, path, rpath, orders, left, right, rng, select,
                 tag):
    """wirefence_weight_and_pick on [left, right): count, reversal, pick."""
    lit = {"orders": orders, "left": left, "right": right}
    before = _frames(path)
    try:
        got, empty = tis.wirefence_weight_and_pick(path, left, right)
        got_r, _ = tis.wirefence_weight_and_pick(rpath, left, right)
    except Exception as exc:  # noqa: BLE001
        rec.bad("wf-count-raised", f"{tag}: wirefence_weight_and_pick raised "
                f"{type(exc).__name__}: {exc}", **lit)
        return None
    subs = O.subpaths(orders, left, right)
    quals = O.qualifying(orders, left, right)
    ref = sum(q[2] for q in quals)
    rec.reach("wf_count")
    rec.reach("wf_reversal")
    for _, _, kind in subs:
        rec.hit("subpaths_" + kind)
    rec.hit("regions_weight_positive" if ref else "regions_weight_zero")
    if got != ref:
        rec.bad("wf-count-differs-from-definition",
                f"{tag}: wirefence_weight_and_pick gives {got}, the frames on "
                f"LL/LR/RL sub-paths are {ref} (sub-paths {subs})", **lit)
    if got_r != got:
        rec.bad("wf-count-changes-under-time-reversal",
                f"{tag}: forward {got}, reversed {got_r}", **lit)
    if empty.length != 0:
        rec.bad("wf-segment-returned-without-request",
                f"{tag}: return_seg=False gave {empty.length} frames", **lit)
    if _frames(path) != before:
        rec.bad("wf-input-path-mutated", f"{tag}: frames changed", **lit)
    if not select:
        return got
    if not quals:
        n0, seg = tis.wirefence_weight_and_pick(
            path, left, right, return_seg=True, ens_set={"rgen": Scripted(.5)})
        rec.hit("selection_without_candidates")
        if seg.length != 0 or n0 != got:
            rec.bad("wf-segment-without-qualifying-frames",
                    f"{tag}: weight {n0}, segment of {seg.length} frames "
                    "though no qualifying sub-path exists", **lit)
        return got
    rec.hit("selection_regions")
    rec.hit("selection_regions_multi_segment" if len(quals) > 1
            else "selection_regions_single_segment")
    spans = {tuple(range(a, b + 1)): j for j, (a, b, _) in enumerate(quals)}
    rr = {tuple(range(a - 1, b + 2)) for a, b, k in subs if k == "RR"}
    for u in probe_us(quals, rng):
        gen = Scripted(u)
        try:
            n1, seg = tis.wirefence_weight_and_pick(
                path, left, right, return_seg=True, ens_set={"rgen": gen})
        except Exception as exc:  # noqa: BLE001
            rec.bad("wf-pick-raised", f"{tag}: {type(exc).__name__}: {exc}",
                    u=u, **lit)
            return got
        rec.hit("selection_probes")
        idx = tuple(c for c, _ in _frames(seg))
        allowed = O.pick(quals, u)
        rec.reach("segment_membership")
        if n1 != got:
            rec.bad("wf-pick-weight-differs", f"{tag}: weight {n1} with "
                    f"return_seg, {got} without", u=u, **lit)
        if seg.length == 0:
            rec.bad("wf-no-segment-returned", f"{tag}: u={u!r} gave an empty "
                    f"segment although {ref} qualifying frames exist",
                    u=u, **lit)
            continue
        if [x for _, x in _frames(seg)] != [orders[c] for c in idx]:
            rec.bad("wf-segment-frames-altered", f"{tag}: order values of the "
                    "returned frames differ from the path's", u=u, **lit)
        if idx not in spans:
            rec.bad("wf-segment-is-right-right-subpath" if idx in rr else
                    "wf-segment-not-a-qualifying-subpath",
                    f"{tag}: u={u!r} returned frames {list(idx)}; qualifying "
                    f"sub-paths (entry, exit, n) are {quals}", u=u, **lit)
            continue
        rec.reach("selection_law")
        j = spans[idx]
        if len(allowed) > 1:
            rec.hit("exact_boundary_probe_picked_" +
                    ("lower" if j == allowed[0] else
                     "upper" if j == allowed[1] else "other"))
        if j not in allowed:
            rec.bad("wf-segment-not-by-cumulative-frame-count",
                    f"{tag}: u={u!r} selected sub-path #{j}, the cumulative "
                    f"frame-count interval containing u belongs to "
                    f"#{allowed} (frame counts {[q[2] for q in quals]})",
                    u=u, **lit)
        if _frames(path) != before:
            rec.bad("wf-input-path-mutated", f"{tag}: frames changed by pick",
                    u=u, **lit)
    return got


def check_weight(rec, tis, O, path, rpath, orders, lam0, lam_i, cap, count_ok,
                 tag):
    """compute_weight(path, [lam0, lam_i, cap], 'wf')."""
    lit = {"orders": orders, "interfaces": [lam0, lam_i, cap]}
    try:
        got = tis.compute_weight(path, [lam0, lam_i, cap], "wf")
        got_r = tis.compute_weight(rpath, [lam0, lam_i, cap], "wf")
    except Exception as exc:  # noqa: BLE001
        rec.bad("wf-weight-raised", f"{tag}: compute_weight raised "
                f"{type(exc).__name__}: {exc}", **lit)
        return
    rec.reach("compute_weight")
    rec.reach("positivity")
    cnt = O.count(orders, lam_i, cap)
    ref = O.weight(orders, lam0, lam_i, cap)
    defined = O.ends_defined(orders, lam0, cap)
    if cnt:
        rec.hit("weights_doubled" if ref == 2 * cnt else "weights_single")
        if not defined:
            rec.hit("weights_with_undefined_endpoint")
    if got != ref:
        if not defined and count_ok and got == 2 * cnt:
            rec.bad(KNOWN_TAG, f"{tag}: compute_weight gives {got} = 2 x "
                    f"{cnt} although an end point lies strictly between "
                    "lambda_0 and cap (start '?' != end None)",
                    where="compute_weight", **lit)
        elif count_ok and got in (cnt, 2 * cnt):
            rec.bad("wf-doubling-wrong", f"{tag}: compute_weight gives {got},"
                    f" {cnt} qualifying frames, path "
                    f"{'connects' if ref == 2 * cnt else 'does not connect'} "
                    "the two outer sides", **lit)
        else:
            rec.bad("wf-weight-differs-from-definition",
                    f"{tag}: compute_weight gives {got}, definition {ref}",
                    **lit)
    if (got > 0) != (cnt > 0):
        rec.bad("wf-weight-positivity", f"{tag}: weight {got} but {cnt} "
                "qualifying frames", **lit)
    if got_r != got:
        rec.bad("wf-weight-changes-under-time-reversal",
                f"{tag}: forward {got}, reversed {got_r}", **lit)


def check_vector(rec, tis, O, path, rpath, orders, intf, moves, lm1, cap, tag):
    lit = {"orders": orders, "interfaces": intf, "moves": moves, "cap": cap,
           "lambda_minus_one": lm1}
    try:
        got = tis.calc_cv_vector(path, intf, moves, lm1, cap=cap)
        got_r = tis.calc_cv_vector(rpath, intf, moves, lm1, cap=cap)
    except Exception as exc:  # noqa: BLE001
        rec.bad("cv-raised", f"{tag}: calc_cv_vector raised "
                f"{type(exc).__name__}: {exc}", **lit)
        return
    rec.reach("cv_vector")
    ref = O.weight_vector(orders, intf, moves, cap)
    cap_eff = intf[-1] if cap is None else cap
    if not isinstance(got, tuple) or len(got) != len(intf):
        rec.bad("cv-shape", f"{tag}: {got!r} for {len(intf)} interfaces",
                **lit)
        return
    for i, (g, r) in enumerate(zip(got, ref)):
        if i == len(intf) - 1:
            if g != 0:
                rec.bad("cv-last-entry-nonzero", f"{tag}: {got}", **lit)
        elif moves[i + 1] == "wf":
            rec.hit("cv_entries_wf")
            if g == r:
                continue
            cnt = O.count(orders, intf[i], cap_eff)
            if not O.ends_defined(orders, intf[0], cap_eff) and g == 2 * cnt:
                rec.bad(KNOWN_TAG, f"{tag}: entry {i} of {got} is 2 x {cnt} "
                        "although an end point lies strictly between lambda_0"
                        " and cap", where="calc_cv_vector", **lit)
            else:
                rec.bad("cv-wf-entry-differs-from-definition",
                        f"{tag}: entry {i} is {g}, definition {r} "
                        f"(vector {got}, definition {ref})", **lit)
        else:
            rec.hit("cv_entries_sh")
            if g != r:
                rec.bad("cv-sh-entry-not-crossing-indicator",
                        f"{tag}: entry {i} is {g}, max(op)={max(orders)}, "
                        f"interface {intf[i]}", **lit)
    if got_r != got:
        rec.bad("cv-vector-changes-under-time-reversal",
                f"{tag}: forward {got}, reversed {got_r}", **lit)


def _sig(rec, kind, ranks, extra=""):
    if len(rec.sigs) < SIG_CAP:
        blob = (kind + ":" + ",".join(map(str, ranks)) + ":" + extra).encode()
        rec.sigs.add(hashlib.blake2b(blob, digest_size=8).hexdigest())


# --------------------------------------------------------------- family exh
TRIPLES = [(0.0, 1.0, 2.0), (-1.5, 0.5, 3.0), (0.1, 0.3, 0.7),
           (-0.30000000000000004, -0.1, 1e-3), (1.0, 1.0 + 2 ** -40, 7.25),
           (2.0, 3.0, 3.5), (-2.0, 0.0, 0.5), (100.0, 100.25, 101.0)]


def run_exh(job, rec):
    from infretis.core import tis
    from vf.oracles import wfseg as O
    rng = random.Random(job["seed"])
    for item in job["items"]:
        a, n, pre = item["a"], item["n"], item["prefix"]
        lam0, lam_i, cap = rng.choice(TRIPLES)
        if a == 5:
            lam0 = lam_i
        d = rng.choice([0.5, 1.0, 1e-9 * max(1.0, abs(cap))])
        lows = [lam0 - d, lam0, (lam0 + lam_i) / 2] if a == 7 else [lam0 - d]
        inner = [None, lam_i, (lam_i + cap) / 2, cap, cap + d]
        ends = (lows + inner[1:]) if a == 7 else ([lam0 - d] + inner[1:])
        radix = [a] + [5] * (n - 2) + ([a] if n > 1 else [])
        rest = [range(r) for r in radix[len(pre):]]
        for suf in itertools.product(*rest):
            word = tuple(pre) + suf
            orders = []
            for k, c in enumerate(word):
                if k in (0, n - 1):
                    orders.append(ends[c])
                else:
                    orders.append(rng.choice(lows) if c == 0 else inner[c])
            rec.n += 1
            rec.hit("cases_exh_ends7" if a == 7 else "cases_exh_ends5")
            path, rpath = mk_path(orders), mk_path(orders[::-1])
            tag = f"exh a={a} n={n}"
            got = check_region(rec, tis, O, path, rpath, orders, lam_i, cap,
                               rng, True, tag)
            if got is None:
                continue
            check_weight(rec, tis, O, path, rpath, orders, lam0, lam_i, cap,
                         got == O.count(orders, lam_i, cap), tag)
            if O.subpaths(orders, lam_i, cap):
                rec.hit("nontrivial_cases")
                _sig(rec, f"exh{a}", word)
            if len(rec.samples) < 1 and n >= 6 and \
                    len(O.qualifying(orders, lam_i, cap)) > 1:
                rec.samples.append({
                    "family": "exh", "orders": orders,
                    "interfaces": [lam0, lam_i, cap],
                    "qualifying_(entry,exit,n)":
                        O.qualifying(orders, lam_i, cap),
                    "weight": O.weight(orders, lam0, lam_i, cap)})


# -------------------------------------------------------------- family rand
def _sequence(rng, pool, lo, hi, length):
    mode = rng.choice(("iid", "walk", "walk", "real"))
    if mode == "iid":
        return mode, [rng.choice(pool) for _ in range(length)]
    if mode == "walk":
        k, out = rng.randrange(len(pool)), []
        for _ in range(length):
            out.append(pool[k])
            if rng.random() < 0.2:
                k = rng.randrange(len(pool))
            else:
                k = min(len(pool) - 1, max(0, k + rng.choice((-1, 0, 1))))
        return mode, out
    ths = pool[1::2]
    return mode, [rng.choice(ths) if rng.random() < 0.25 else
                  rng.uniform(lo - 1, hi + 1) for _ in range(length)]


def run_rand(job, rec):
    from infretis.core import tis
    from vf.oracles import wfseg as O
    rng = random.Random(job["seed"])
    for _ in range(job["count"]):
        nplus = rng.choice((1, 2, 2, 3, 3, 4, 4, 5))
        step = rng.choice((0.5, 0.5, 0.25, 0.1))
        grid = [step * k for k in range(-4, 14)]
        intf = sorted(rng.sample(grid, nplus + 1))
        r = rng.random()
        if r < 0.35:
            cap, capkind = None, "none"
        elif r < 0.75:      # between the last two interfaces / at the last
            cap = rng.choice([(intf[-2] + intf[-1]) / 2, intf[-1]])
            capkind = "top"
        elif r < 0.92:      # anywhere above lambda_0 (upper regions empty)
            cap = rng.choice([g for g in grid if g > intf[0]] +
                             [(intf[0] + intf[1]) / 2])
            capkind = "low" if cap <= intf[-2] else "top"
        else:
            cap, capkind = intf[-1] + step, "beyond"
        cap_eff = intf[-1] if cap is None else cap
        ths = sorted(set(intf + [cap_eff]))
        pool = [ths[0] - step]          # outer, thresholds and midpoints
        for t0, t1 in zip(ths, ths[1:]):
            pool += [t0, (t0 + t1) / 2]
        pool += [ths[-1], ths[-1] + step]
        length = 1 if rng.random() < 0.02 else rng.randint(2, 40)
        mode, orders = _sequence(rng, pool, ths[0], ths[-1], length)
        if rng.random() < 0.55:         # complete path: both ends outside
            outer = [x for x in pool if x <= intf[0] or x >= cap_eff]
            orders[0] = rng.choice([x for x in outer if x <= intf[0]])
            orders[-1] = rng.choice(outer)
            rec.hit("cases_rand_complete_ends")
        rec.n += 1
        rec.hit("cases_rand_" + mode)
        rec.hit("cap_" + capkind)
        path = mk_path(orders, extra=rng.random() < 0.3)
        rpath = mk_path(orders[::-1])
        tag = f"rand {mode}"
        rec.hit("jumps_over_region", sum(
            1 for x, y in zip(orders, orders[1:])
            if min(x, y) < ths[0] and max(x, y) >= ths[-1]))
        rec.hit("frames_equal_to_a_threshold",
                sum(1 for x in orders if x in ths))
        # every left < right pair of thresholds
        pairs = [(l, r) for l, r in itertools.combinations(ths, 2)]
        nseg = {p: len(O.qualifying(orders, *p)) for p in pairs}
        chosen = sorted(pairs, key=lambda p: (-nseg[p], rng.random()))[:2]
        nontrivial = False
        for left, right in pairs:
            rec.hit("region_pairs")
            check_region(rec, tis, O, path, rpath, orders, left, right, rng,
                         (left, right) in chosen, tag)
            nontrivial |= bool(O.subpaths(orders, left, right))
        if rng.random() < 0.1 and len(ths) > 1:     # empty region
            left, right = rng.choice([(ths[1], ths[0]), (ths[-1], ths[-1])])
            rec.hit("region_pairs_empty")
            check_region(rec, tis, O, path, rpath, orders, left, right, rng,
                         True, tag + " empty-region")
        for lam_i in intf[:-1]:      # lam_i >= cap: empty region, weight 0
            check_weight(rec, tis, O, path, rpath, orders, intf[0], lam_i,
                         cap_eff, True, tag)
        # weight vectors for every move assignment
        lm1 = False if rng.random() < 0.6 else intf[0] - rng.choice((step, 1))
        if nplus <= 4:
            mvs = list(itertools.product(("sh", "wf"), repeat=nplus))
        else:
            mvs = [tuple(rng.choice(("sh", "wf")) for _ in range(nplus))
                   for _ in range(10)] + [("wf",) * nplus, ("sh",) * nplus]
        for mv in mvs:
            moves = [rng.choice(("sh", "wf"))] + list(mv)
            check_vector(rec, tis, O, path, rpath, orders, intf, moves, lm1,
                         cap, tag)
        rec.hit("cv_vectors", len(mvs))
        run_minus(rec, tis, rng, intf, lm1, cap, step)
        if nontrivial:
            rec.hit("nontrivial_cases")
            _sig(rec, "rand", [sum(1 for t in ths if x >= t) * 2 -
                               (1 if x in ths else 0) for x in orders],
                 f"{nplus}{capkind}")
        if len(rec.samples) < 1 and 8 <= length <= 14 and nseg[chosen[0]] > 1:
            rec.samples.append({
                "family": "rand", "orders": orders, "interfaces": intf,
                "cap": cap, "region": list(chosen[0]),
                "qualifying_(entry,exit,n)": O.qualifying(orders, *chosen[0]),
                "vector_all_wf": O.weight_vector(
                    orders, intf, ["sh"] + ["wf"] * nplus, cap)})


def run_minus(rec, tis, rng, intf, lm1, cap, step):
    """A valid [0-] path has the weight vector (1,)."""
    lam0 = intf[0]
    hi = [lam0, lam0 + step, intf[-1] + step]
    k = rng.randint(1, 6)
    if lm1 is False:
        body = [lam0 - step * rng.choice((0.5, 1, 3)) for _ in range(k)]
        orders = [rng.choice(hi)] + body + [rng.choice(hi)]
        rec.hit("minus_cases_plain")
    else:
        lo = [lm1, lm1 - step]
        body = [lm1 + (lam0 - lm1) * rng.choice((0.25, 0.5, 0.75))
                for _ in range(k)]
        orders = [rng.choice(hi + lo)] + body + [rng.choice(hi + lo)]
        rec.hit("minus_cases_lambda_minus_one")
    moves = [rng.choice(("sh", "wf")) for _ in intf]
    lit = {"orders": orders, "interfaces": intf, "lambda_minus_one": lm1}
    try:
        got = tis.calc_cv_vector(mk_path(orders), intf, moves, lm1, cap=cap,
                                 minus=True)
        got_r = tis.calc_cv_vector(mk_path(orders[::-1]), intf, moves, lm1,
                                   cap=cap, minus=True)
    except Exception as exc:  # noqa: BLE001
        rec.bad("cv-minus-raised", f"{type(exc).__name__}: {exc}", **lit)
        return
    rec.reach("cv_minus")
    if got != (1.0,) or not isinstance(got, tuple) or got_r != got:
        rec.bad("cv-minus-valid-path-not-one", f"valid [0-] path got {got!r}"
                f" (reversed {got_r!r}), expected (1.0,)", **lit)


def work(job, scratch):
    if job["kind"] == "rig":
        from vf.checks import _schedfam as F
        return F.generic_work(job, scratch, _mons, _nontrivial)
    rec = Rec()
    (run_exh if job["kind"] == "exh" else run_rand)(job, rec)
    return {"n": rec.n, "sigs": sorted(rec.sigs), "events": rec.ev,
            "violations": rec.v + rec.known, "samples": rec.samples,
            "reached": rec.reached, "notes": []}
