"""C12 - every engine returns the trajectory it actually ran.

External engines (LAMMPS, CP2K, GROMACS) are the real classes of /repo driven
against the stub MD programs of vf/stubs (write schedule = data, baton or free
running); TurtleMD, ASE and the plug-in Lattice/Ballistic engines run in
process.  See DESIGN.md, section "C12".
"""
import importlib.util  # noqa: F401
import json
import math
import os
import random
import shutil
import sys

PROPERTY = "C12"
LEVEL = "fault_enumeration"
K_POLLS = 20
RULE = (
    "One case = one engine.propagate() call of a real engine class. External "
    "engines run against stub MD programs whose dynamics (free flight or a "
    "harmonic bond, velocity Verlet) is known to the harness and whose write "
    "schedule is data: frames per poll (1-6), byte cuts inside frames, "
    "per-frame box (LAMMPS/GROMACS), lagging velocity file (CP2K), TRR byte "
    "order/precision, in baton mode (the engine's own sleep() hands the "
    "writer one token: deterministic frames-per-poll and cut patterns, "
    "logical poll clock) or free running. Cases are drawn per engine from "
    "order parameter {Position, Distance(periodic or not), Velocity, "
    "Distancevel} x reverse x start vel_rev x subcycles 1-10 x maxlen 3-40 x "
    "stop kind {cross right, cross left, length limit, start outside}; "
    "retrace pairs (forward, then backward from frame k); FAULT ENUMERATION: "
    "the grid death point {no file, empty file, inside first frame, after "
    "first frame, frame boundary, inside a frame header, inside frame data "
    "early, inside frame data late, inside the would-be stop frame} x "
    "{exit 1, 2, 139, 255, SIGKILL, SIGSEGV, SIGABRT, SIGTERM} is covered "
    "completely for each external engine in every run (quick: once, "
    "thorough: many contexts), plus early exit 0. In-process engines: "
    f"TurtleMD (Langevin), ASE (VelocityVerlet/Langevin), Lattice, Ballistic "
    "with random start points, interfaces, subcycles and length limits. "
    "Oracles per call: frame 0 = start phase point; stored order of frame k "
    "= order recomputed from the (file, index) it references with its own "
    "coordinates, box and vel_rev, both through the engine's own "
    "dump_frame/_read_configuration/calculate_order and through an "
    "independent reader + order function, and the referenced frame = frame k "
    "of the known dynamics; stop at the first outside frame or at maxlen, "
    "success only in the former case; backward retraces forward; no process "
    "of the program's group alive after return; a failing program makes "
    f"propagate raise within {K_POLLS} polls after its exit. Non-trivial = a "
    "returned path with >= 2 frames or a fault case whose death point was "
    "reached; distinct = distinct (engine, family, order, directions, "
    "subcycles, maxlen, stop kind, mode, burst/cut schedule, box schedule, "
    "fault).")
ASSUMPTIONS = [
    "the stub programs speak the file protocol of the real programs (formats "
    "typed in from the format definitions); what is decided is the engine-"
    "side code",
    "order values are kept >= 5e-4 away from the interfaces and crossings are "
    "placed before frame maxlen-1: behaviour at exact equality and at "
    "'crossing on the very last allowed frame' is not fixed by the property",
    "a program that exits 0 after writing fewer frames than requested is not "
    "required to raise; only success=False and correct frames are demanded",
    "if the stop frame was completely written before the program failed, "
    "both returning the complete path and raising are accepted",
    "hangs are decided by counting the engine's own sleep() calls after the "
    "program exited; the wall-clock watchdog only yields inconclusive",
    "TurtleMD is driven with LangevinInertia only (TurtleMDEngine passes "
    "seed= to every integrator, VelocityVerlet does not accept it), so "
    "TurtleMD has no retrace cases",
]
MUST_REACH = ["first_frame", "frame_order_own_extraction",
              "frame_order_independent", "frame_is_kth_of_dynamics",
              "stop_rule", "retrace", "process_stopped", "failure_raises",
              "program_input"]
JOB_TIMEOUT = 1500

HERE = os.path.dirname(os.path.abspath(__file__))
STUBS = os.path.abspath(os.path.join(HERE, "..", "stubs"))
EXT = ("lammps", "cp2k", "gromacs")
HOWS = [("exit", 1), ("exit", 2), ("exit", 139), ("exit", 255),
        ("signal", 9), ("signal", 11), ("signal", 6), ("signal", 15)]
POINTS = ["nofile", "empty", "in-first", "after-first", "boundary",
          "in-head", "in-data-early", "in-data-late", "in-stop-frame"]
GRID = [(p, h) for p in POINTS for h in HOWS]
ORDERS3D = [
    {"class": "Position", "index": [0, 0], "periodic": False},
    {"class": "Position", "index": [1, 0], "periodic": False},
    {"class": "Distance", "index": [0, 1], "periodic": True},
    {"class": "Distance", "index": [0, 1], "periodic": False},
    {"class": "Velocity", "index": 0, "dim": "x"},
    {"class": "Velocity", "index": 1, "dim": "y"},
    {"class": "Distancevel", "index": [0, 1], "periodic": True},
]
BURSTS = [[1], [2], [3], [1, 2], [4, 1], [2, 3, 1], [5], [1, 1, 6], [2, 2]]


# --------------------------------------------------------------------------
# plan
# --------------------------------------------------------------------------
def plan(tier, seed):
    rng = random.Random(f"C12-{seed}")
    quick = tier == "quick"
    njobs = 16 if quick else 64
    reps = 1 if quick else 10          # contexts per fault-grid entry
    jobs = []
    for j in range(njobs):
        grid = [i for i in range(len(GRID) * reps) if i % njobs == j]
        jobs.append({
            "seed": rng.randrange(2 ** 31), "hashseed": j % 5,
            "normal": 5 if quick else 24, "retrace": 2 if quick else 9,
            "fault_ids": grid, "early0": 1 if quick else 2,
            "ballistic": 90 if quick else 240, "lattice": 40 if quick else 90,
            "turtle": 30 if quick else 60, "ase": 10 if quick else 20})
    return jobs


# --------------------------------------------------------------------------
# helpers
# --------------------------------------------------------------------------
def _r6(v):
    return round(v, 6)


def _stub(name):
    p = os.path.join(STUBS, name)
    return p if os.access(p, os.X_OK) else f"{sys.executable} {p}"


def _repo_examples():
    import infretis
    return os.path.join(os.path.dirname(os.path.dirname(infretis.__file__)),
                        "examples")


def _sgn(flag):
    return -1.0 if flag else 1.0


def _scaled(rows, s):
    return [[s * c for c in r] for r in rows]


def _flat(a):
    return [c for r in a for c in (r if isinstance(r, (list, tuple)) else [r])]


def _maxdiff(a, b):
    return max(abs(p - q) for p, q in zip(_flat(a), _flat(b)))


class Out:
    """Result accumulator of one job."""

    def __init__(self):
        self.res = {"n": 0, "sigs": [], "events": {}, "violations": [],
                    "samples": [], "reached": {}, "notes": [],
                    "inconclusive": []}
        self.per_mech = {}

    def ev(self, k, n=1):
        self.res["events"][k] = self.res["events"].get(k, 0) + n

    def reach(self, k, n=1):
        self.res["reached"][k] = self.res["reached"].get(k, 0) + n

    def viol(self, mech, what, case, **detail):
        self.ev("violation:" + mech)
        self.per_mech[mech] = self.per_mech.get(mech, 0) + 1
        if self.per_mech[mech] <= 2:
            w = {"mech": mech, "what": what, "case": case}
            w.update(detail)
            self.res["violations"].append(w)


# --------------------------------------------------------------------------
# the oracles on one returned path
# --------------------------------------------------------------------------
def own_extraction_order(engine, pp, tag):
    """Stored frame -> order through the engine's own machinery."""
    from infretis.classes.system import System
    s = System()
    s.config, s.vel_rev = pp.config, pp.vel_rev
    f = engine.dump_frame(s, deffnm=f"chk_{tag}")
    s2 = System()
    s2.config, s2.vel_rev = (f, 0), pp.vel_rev
    return float(engine.calculate_order(s2)[0])


def judge_path(out, kind, engine, spec, case, path, success, start, start_rev,
               reverse, left, right, maxlen, truth=None, expect=None,
               batches=None, tol_ind=1e-9, tol_truth=5e-5, short_ok=False,
               tol_first=1e-6, short_mech=None):
    """All per-path oracles. `start` = independent reading of the start
    configuration; truth[k] = {"x","v","box"} of frame k of the known
    dynamics in raw file coordinates (v = velocity the program integrates)."""
    from vf.oracles import trajref as tr
    pps = path.phasepoints
    n = len(pps)
    out.ev(f"{kind}:frames", n)
    if n == 0:
        if short_ok:
            out.ev(f"{kind}:empty-path-after-clean-early-exit")
        else:
            out.viol(f"{kind}:empty-path-returned", "propagate returned an "
                     "empty path without raising", case)
        return None
    stored = [float(p.order[0]) for p in pps]
    frames, own, bad = [], [], []
    for k, pp in enumerate(pps):
        fr = tr.read_frame(pp.config)
        frames.append(fr)
        own.append(tr.order_value(spec, fr["x"],
                                  _scaled(fr["v"], _sgn(pp.vel_rev)),
                                  fr["box"]))
    # (1) first frame = the start phase point -------------------------------
    out.reach("first_frame")
    o_start = tr.order_value(spec, start["x"],
                             _scaled(start["v"], _sgn(start_rev)), start["box"])
    v0_eff = _scaled(start["v"], _sgn(start_rev))
    f0_eff = _scaled(frames[0]["v"], _sgn(pps[0].vel_rev))
    first_bad = []
    if abs(stored[0] - o_start) > tol_first:
        first_bad.append(f"stored order {stored[0]!r} != order of the start "
                         f"point {o_start!r}")
    if _maxdiff(frames[0]["raw_x"], start["raw_x"]) > tol_truth:
        first_bad.append("positions differ")
    if _maxdiff(f0_eff, v0_eff) > tol_truth:
        first_bad.append(f"velocity direction differs: frame {f0_eff} start "
                         f"{v0_eff}")
    # (2) stored order = order of the referenced frame -----------------------
    eng_route = []
    for k, pp in enumerate(pps):
        out.reach("frame_order_independent")
        out.reach("frame_order_own_extraction")
        try:
            oe = own_extraction_order(engine, pp, k)
        except Exception as exc:  # extraction itself failing is a finding
            oe = None
            out.viol(f"{kind}:own-frame-extraction-raises",
                     f"dump_frame/calculate_order of frame {k} raised "
                     f"{type(exc).__name__}: {exc}", case)
        eng_route.append(oe)
        if abs(stored[k] - own[k]) > tol_ind or (
                oe is not None and abs(stored[k] - oe) > 1e-7):
            bad.append(k)
    sign_explains = mirror_explains = False
    if bad or first_bad:
        # does "velocity sign opposite to the frame's vel_rev" explain it?
        flipped = [tr.order_value(spec, fr["x"],
                                  _scaled(fr["v"], -_sgn(pp.vel_rev)),
                                  fr["box"]) for fr, pp in zip(frames, pps)]
        sign_explains = all(abs(stored[k] - flipped[k]) <= 1e-7 for k in bad) \
            and (not first_bad or bad[:1] == [0]) and bool(bad)
        if batches and kind == "lammps" and bad:
            mirror = {}
            s = 0
            for b in batches:
                for k in range(s, s + b):
                    mirror[k] = 2 * s + b - 1 - k
                s += b
            pred = {}
            for k in bad:
                m = mirror.get(k)
                if m is None or m >= len(frames) and truth is None:
                    break
                bx = (frames[m]["raw_box"] if m < len(frames)
                      else truth[m]["box"])
                xs = [[c - b[0] for c, b in zip(r, bx)]
                      for r in frames[k]["raw_x"]]
                pred[k] = tr.order_value(
                    spec, xs, _scaled(frames[k]["v"], _sgn(pps[k].vel_rev)),
                    [b[1] - b[0] for b in bx])
            mirror_explains = len(pred) == len(bad) and all(
                abs(stored[k] - pred[k]) <= 1e-7 for k in bad)
    if bad:
        if kind == "gromacs" and reverse and sign_explains:
            mech = "gromacs:backward-frames-velocity-sign-not-reversed"
        elif mirror_explains:
            mech = "lammps:frame-paired-with-box-of-mirror-frame-in-poll"
        else:
            mech = f"{kind}:stored-order-differs-from-referenced-frame"
        k = bad[0]
        out.viol(mech, f"{len(bad)}/{n} frames: e.g. frame {k} stored "
                 f"{stored[k]!r}, recomputed from {os.path.basename(pps[k].config[0])}"
                 f"[{pps[k].config[1]}] independently {own[k]!r}, through the "
                 f"engine's own extraction {eng_route[k]!r}", case,
                 bad_frames=bad[:12], batches=batches)
    if first_bad and not (bad[:1] == [0] and (mirror_explains or (
            kind == "gromacs" and reverse and sign_explains))):
        out.viol(f"{kind}:first-frame-differs-from-start-point",
                 "; ".join(first_bad), case)
    # (2c) the referenced frame is frame k of the dynamics that was run ------
    if truth is not None:
        for k, pp in enumerate(pps):
            out.reach("frame_is_kth_of_dynamics")
            t = truth[k]
            probs = []
            if pp.config[1] != k:
                probs.append(f"references index {pp.config[1]}")
            if _maxdiff(frames[k]["raw_x"], t["x"]) > tol_truth:
                probs.append("positions are not those of step k")
            veff = _scaled(frames[k]["v"], _sgn(pp.vel_rev))
            if _maxdiff(veff, _scaled(t["v"], _sgn(reverse))) > tol_truth:
                probs.append("velocity (in the frame's direction) is not "
                             "that of step k")
            if t.get("box") is not None and "raw_box" in frames[k] and \
                    _maxdiff(frames[k]["raw_box"], t["box"]) > tol_truth:
                probs.append("box is not that of step k")
            if probs:
                out.viol(f"{kind}:frame-is-not-kth-configuration-of-the-run",
                         f"frame {k}: " + "; ".join(probs), case)
                break
    # (3) stop rule and success flag -----------------------------------------
    out.reach("stop_rule")
    inside = [left < o < right for o in stored]
    on_intf = any(min(abs(o - left), abs(o - right)) < 1e-9 for o in stored)
    if on_intf:
        # an order exactly on an interface (possible only for a frame whose
        # stored order is wrong for another reason): < vs <= is not fixed
        out.ev(f"{kind}:stored-order-exactly-on-an-interface(not judged)")
    elif not all(inside[:-1]):
        k = inside.index(False)
        out.viol(f"{kind}:stop-rule:continued-past-first-outside-frame",
                 f"frame {k} of {n} has order {stored[k]!r} outside "
                 f"({left}, {right})", case)
    elif inside[-1] and n < maxlen and not short_ok:
        out.viol(short_mech or
                 f"{kind}:stop-rule:stopped-inside-before-length-limit",
                 f"{n} frames, last order {stored[-1]!r} inside ({left}, "
                 f"{right}), maxlen {maxlen}", case)
    if n > maxlen:
        out.viol(f"{kind}:stop-rule:longer-than-maxlen", f"{n} > {maxlen}",
                 case)
    if on_intf:
        return {"frames": frames, "stored": stored}
    if not inside[-1] and n == maxlen:
        out.ev(f"{kind}:crossing-on-last-allowed-frame(not judged)")
    elif bool(success) != (not inside[-1]):
        out.viol(f"{kind}:stop-rule:success-flag-wrong",
                 f"success={success} but the last of {n} frames (maxlen "
                 f"{maxlen}) has order {stored[-1]!r}, interfaces ({left}, "
                 f"{right})", case)
    if expect is not None and not bad and not (inside[-1] and n < maxlen) \
            and (n != expect["len"] or bool(success) != expect["success"]):
        out.viol(f"{kind}:stop-rule:differs-from-known-dynamics",
                 f"returned {n} frames success={success}; the known "
                 f"trajectory leaves ({left}, {right}) at frame "
                 f"{expect['len'] - 1} (expected success="
                 f"{expect['success']})", case)
    return {"frames": frames, "stored": stored}


def judge_retrace(out, kind, case, fwd, bwd, k, tol):
    """bwd started from frame k of fwd (both = judge_path results)."""
    out.reach("retrace")
    m = min(k, len(bwd["frames"]) - 1)
    for j in range(m + 1):
        fb, ff = bwd["frames"][j], fwd["frames"][k - j]
        if _maxdiff(fb["raw_x"], ff["raw_x"]) > tol:
            out.viol(f"{kind}:backward-does-not-retrace:positions",
                     f"backward frame {j} != forward frame {k - j}: "
                     f"{fb['raw_x']} vs {ff['raw_x']}", case)
            return
        if _maxdiff(fb["v"], _scaled(ff["v"], -1.0)) > tol:
            out.viol(f"{kind}:backward-does-not-retrace:velocities",
                     f"backward frame {j} velocities {fb['v']} are not the "
                     f"reversed forward ones {ff['v']}", case)
            return
    out.ev(f"{kind}:retraced_frames", m + 1)
    bad = [j for j in range(m + 1)
           if abs(bwd["stored"][j] - fwd["stored"][k - j]) > max(tol, 1e-7)]
    if bad:
        neg = all(abs(bwd["stored"][j] + fwd["stored"][k - j]) <= max(
            tol, 1e-7) for j in bad)
        mech = ("gromacs:backward-frames-velocity-sign-not-reversed"
                if kind == "gromacs" and neg else
                f"{kind}:backward-does-not-retrace:orders")
        j = bad[0]
        out.viol(mech, f"stored order of backward frame {j} "
                 f"{bwd['stored'][j]!r} != forward frame {k - j} "
                 f"{fwd['stored'][k - j]!r} ({len(bad)} frames)", case)


# --------------------------------------------------------------------------
# external engines against the stubs
# --------------------------------------------------------------------------
class _GrowingFile:
    """File proxy used by ReaderTap: right after the reader consumed a line
    that has no newline yet, the writer performs its next step - the
    interleaving 'the file grows while it is being read', made deterministic."""

    def __init__(self, fh, tap):
        self._fh, self._tap = fh, tap

    def readline(self, *a):
        line = self._fh.readline(*a)
        if line and not line.endswith("\n") and self._tap.grow > 0:
            self._tap.grow -= 1
            self._tap.grown += 1
            self._tap.baton.tick()
        return line

    def __getattr__(self, name):
        return getattr(self._fh, name)


class ReaderTap:
    """Observes how many frames each poll of the on-the-fly reader returned;
    with grow > 0 (baton mode) also lets the file grow during a read."""

    def __init__(self, baton=None, grow=0):
        from infretis.classes.engines import engineparts as ep
        self.ep, self.calls = ep, []
        self.baton, self.grow, self.grown = baton, grow, 0
        self.orig = ep.ReadAndProcessOnTheFly.read_and_process_content
        tap = self

        def wrapped(rd):
            if tap.grow > 0 and not getattr(rd, "_vf_grow", False):
                fn = rd.processing_function

                def pf(reader, _fn=fn):
                    reader.file_object = _GrowingFile(reader.file_object, tap)
                    return _fn(reader)
                rd.processing_function, rd._vf_grow = pf, True
            res = tap.orig(rd)
            nfr = len(res[0]) if isinstance(res, tuple) else len(res)
            tap.calls.append((os.path.basename(str(rd.file_path)), nfr))
            return res
        ep.ReadAndProcessOnTheFly.read_and_process_content = wrapped

    def close(self):
        self.ep.ReadAndProcessOnTheFly.read_and_process_content = self.orig


class OrderBomb:
    """Order parameter that fails at its n-th evaluation (a user-supplied
    order function raising in the middle of a propagation)."""

    def __init__(self, real, n):
        self.real, self.n, self.calls = real, n, 0
        self.velocity_dependent = real.velocity_dependent

    def calculate(self, system):
        self.calls += 1
        if self.calls == self.n:
            raise RuntimeError("order function failed (injected)")
        return self.real.calculate(system)


def _raise_site(exc):
    """Innermost function of the infretis package in the traceback."""
    import traceback
    site = "?"
    for fr in traceback.extract_tb(exc.__traceback__):
        if "infretis" in fr.filename:
            site = fr.name
    return site


class ExtRig:
    def __init__(self, kind, scratch, seed):
        import numpy as np
        self.kind, self.root = kind, os.path.join(scratch, kind)
        os.makedirs(self.root, exist_ok=True)
        self.np = np
        self.rgen = np.random.default_rng(seed)
        sub = {"lammps": "lammps/H2/lammps_input", "cp2k": "cp2k/H2/cp2k_input",
               "gromacs": "gromacs/H2/gromacs_input"}[kind]
        self.inp = os.path.join(self.root, "input")
        shutil.copytree(os.path.join(_repo_examples(), sub), self.inp)
        for junk in ("infretis.mdp", "topol.tpr"):
            if os.path.exists(os.path.join(self.inp, junk)):
                os.remove(os.path.join(self.inp, junk))
        self.count = 0

    def module(self):
        import importlib
        return importlib.import_module(
            f"infretis.classes.engines.{self.kind}")

    def engine(self, timestep, nsub, exe_dir):
        os.environ.pop("VF_STUB_PLAN", None)
        if self.kind == "lammps":
            from infretis.classes.engines.lammps import LAMMPSEngine
            e = LAMMPSEngine(_stub("fake_lmp.py"), self.inp, timestep, nsub,
                             300.0, exe_path=self.root, sleep=0.0)
        elif self.kind == "cp2k":
            from infretis.classes.engines.cp2k import CP2KEngine
            e = CP2KEngine(_stub("fake_cp2k.py"), self.inp, timestep, nsub,
                           300.0, exe_path=self.root, sleep=0.0)
        else:
            from infretis.classes.engines.gromacs import GromacsEngine
            e = GromacsEngine(_stub("fake_gmx.py"), self.inp, timestep, nsub,
                              300.0, exe_path=self.root)
            e.set_mdrun({"wmdrun": _stub("fake_gmx.py") + " mdrun",
                         "exe_dir": exe_dir})
        e.exe_dir = exe_dir
        e.rgen = self.rgen
        return e

    def write_start(self, cdir, x, v, box, rng):
        from vf.stubs import stublib as sl
        if self.kind == "lammps":
            f = os.path.join(cdir, "start.lammpstrj")
            txt = sl.lammps_frame(0, x, v, box, "%.17g",
                                  trailing_id=rng.random() < 0.5)
        elif self.kind == "cp2k":
            f = os.path.join(cdir, "start.xyz")
            txt = sl.xyz_conf(["H", "H"], x, v, box)
        else:
            f = os.path.join(cdir, "start.g96")
            txt = sl.g96_conf(x, v, box)
        with open(f, "w") as fh:
            fh.write(txt)
        return f


def gen_context(rng, kind, fam):
    """Random dynamics + schedule context of one external case."""
    nsub = rng.choice([1, 1, 2, 3, 5, 10])
    vconv = {"lammps": 1.0, "gromacs": 1.0, "cp2k": 21.876912541518593}[kind]
    x0 = [[_r6(rng.uniform(1, 4)) for _ in range(3)]]
    x0.append([_r6(x0[0][0] + rng.uniform(2, 7)),
               _r6(x0[0][1] + rng.uniform(-.5, .5)),
               _r6(x0[0][2] + rng.uniform(-.5, .5))])
    v0 = [[_r6(rng.choice([-1, 1]) * rng.uniform(0.3, 2.0)) for _ in range(3)]
          for _ in range(2)]
    frame_dt = rng.uniform(0.05, 0.3)
    timestep = float("%.6g" % (frame_dt / (nsub * vconv)))
    d = x0[1][0] - x0[0][0]
    lx = [_r6(d * 1.3), _r6(d * 1.7), _r6(d * 2.6), 30.0, _r6(d * 1.45)]
    if kind == "lammps":
        lo = [_r6(rng.uniform(-2, 1)) for _ in range(3)]
        box0 = [[lo[i], _r6(lo[i] + (rng.choice(lx) if i == 0 else 30.0))]
                for i in range(3)]
    elif kind == "gromacs":
        box0 = [rng.choice(lx), 30.0, 30.0]
    else:
        box0 = rng.choice([None, [round(rng.choice(lx), 4), 30.0, 30.0]])
    boxes = None
    if kind != "cp2k" and fam == "normal" and rng.random() < 0.6:
        boxes = []
        for _ in range(rng.randint(2, 5)):
            if kind == "lammps":
                lo = [_r6(rng.uniform(-2, 1)) for _ in range(3)]
                boxes.append([[lo[i], _r6(lo[i] + (rng.choice(lx) if i == 0
                                                  else 30.0))]
                              for i in range(3)])
            else:
                boxes.append([rng.choice(lx), 30.0, 30.0])
    model = {"kind": "free"}
    if rng.random() < 0.3:
        tau = nsub * timestep * vconv   # length travelled per frame at |v|=1
        model = {"kind": "bond", "kappa": _r6(rng.uniform(0.5, 4) /
                                             (tau / vconv * 10) ** 2),
                 "r0": _r6(d * rng.uniform(0.8, 1.2))}
    pl = {"mode": "baton" if rng.random() < 0.8 else "free",
          "pre_idle": rng.choice([0, 0, 1, 2]), "boxes": boxes,
          "model": model, "burst": rng.choice(BURSTS),
          "fmt": rng.choice(["%.17g", "%.10f", "%.9e"]),
          "shuffle": rng.random() < 0.5, "linger": rng.choice([0, 0, 1, 3]),
          "child": rng.random() < 0.5,
          "create_step": rng.random() < 0.3,
          "fast_exit": rng.random() < 0.3,
          "midread": rng.choice([0, 0, 0, 40]),
          "lag": rng.choice([[0], [0, 1], [0.5], [2, 0, 1], [0.3, 1.7]]),
          "trr": {"endian": rng.choice([">", "<"]),
                  "double": rng.random() < 0.4},
          "delays": [round(rng.uniform(0.0002, 0.003), 5)
                     for _ in range(rng.randint(1, 4))]}
    return {"nsub": nsub, "timestep": timestep, "x0": x0, "v0": v0,
            "box0": box0, "vconv": vconv, "plan": pl}


def gen_sched(rng, nframes):
    """Explicit cut schedule (positions in frames) or [] (burst driven)."""
    style = rng.choice(["burst", "burst", "cuts", "bytes", "tail"])
    if style == "burst":
        return []
    if style == "tail":
        # frame m-1 is on disk except for its final newline, then the program
        # writes everything else (and, with fast_exit, exits) in one step
        m = rng.randint(1, nframes - 1)
        return [float(k) for k in range(1, m)] + [m - 0.001, float(nframes)]
    pos, out = 0.0, []
    while pos < nframes:
        if style == "cuts":
            pos += rng.choice([0.3, 0.5, 1.0, 1.5, 2.0, 2.25, 0.05, 3.9, 0.97])
        else:   # creep over a frame end in tiny steps, then jump
            k = math.floor(pos) + 1
            out += [k - 0.02, k - 0.001, float(k), k + 0.001]
            pos = k + rng.choice([1.0, 2.0, 3.5])
        out.append(round(min(pos, nframes), 4))
    return out


def expected_orders(kind, spec, truth, reverse):
    from vf.oracles import trajref as tr
    vals, margin = [], 1.0
    for t in truth:
        x, box = t["x"], t["box"]
        if kind == "lammps":
            x = [[c - b[0] for c, b in zip(r, box)] for r in x]
            box = [b[1] - b[0] for b in box]
        vals.append(tr.order_value(spec, x, _scaled(t["v"], _sgn(reverse)),
                                   box))
        margin = min(margin, tr.half_box_margin(spec, x, box))
    return vals, margin


def choose_interfaces(rng, orders, maxlen, want, min_c=1):
    """-> (left, right, expected length, expected success)."""
    o = orders[:maxlen]
    if want == "start_outside":
        if rng.random() < 0.5:
            return o[0] - 3.0, o[0] - 0.25, 1, True
        return o[0] + 0.25, o[0] + 3.0, 1, True
    if want in ("right", "left") and maxlen >= 3:
        cands = []
        for c in range(max(1, min_c), maxlen - 1):
            hi, lo = max(o[:c]), min(o[:c])
            w = rng.uniform(0.3, 0.7)
            if o[c] > hi + 2e-3:
                cands.append((c, lo - rng.uniform(0.2, 2),
                              hi + w * (o[c] - hi)))
            if o[c] < lo - 2e-3:
                cands.append((c, lo - w * (lo - o[c]),
                              hi + rng.uniform(0.2, 2)))
        if cands:
            c, left, right = rng.choice(cands)
            return left, right, c + 1, True
    return (min(o) - rng.uniform(0.2, 2), max(o) + rng.uniform(0.2, 2),
            maxlen, False)


def run_external(out, rig, rng, fam, spec, ctx, reverse, start_rev, maxlen,
                 want, fault=None, start_cfg=None, label="", bomb=0):
    """One propagate of an external engine; returns judge_path's result."""
    import numpy as np  # noqa: F401
    from infretis.classes.path import Path
    from infretis.classes.system import System
    from vf import baton as bt
    from vf.oracles import trajref as tr
    from vf.stubs import stublib as sl
    kind = rig.kind
    rig.count += 1
    cdir = os.path.join(rig.root, f"c{rig.count}")
    os.makedirs(cdir)
    pl = dict(ctx["plan"])
    engine = rig.engine(ctx["timestep"], ctx["nsub"], cdir)
    from infretis.classes.orderparameter import create_orderparameter
    engine.order_function = create_orderparameter({"orderparameter":
                                                   dict(spec)})
    if start_cfg is None:
        f = rig.write_start(cdir, ctx["x0"], ctx["v0"], ctx["box0"], rng)
        start_cfg = (f, rng.choice([0, None]))
    start = tr.read_frame(start_cfg)
    if kind == "cp2k" and start["box"] is None:
        start["box"] = [30.0, 30.0, 30.0]
    # the dynamics the program must run: from the start positions with the
    # velocities in the direction of time asked for
    v_run = _scaled(start["v"], _sgn(start_rev) * _sgn(reverse))
    nfr = maxlen + 1
    trj = sl.trajectory(start["raw_x"], v_run, ctx["timestep"], ctx["nsub"],
                        nfr, pl["model"], sl.VCONV[{"lammps": "lmp",
                                                    "cp2k": "cp2k",
                                                    "gromacs": "gmx"}[kind]])
    box_start = start.get("raw_box", start["box"])
    truth = [{"x": x, "v": v,
              "box": sl.box_of_frame(k, box_start, pl)}
             for k, (x, v) in enumerate(trj)]
    orders, margin = expected_orders(kind, spec, truth, reverse)
    if margin < 1e-5:
        out.ev("skipped:distance-at-half-box")
        return None
    min_c = 1
    if fault:
        min_c = {"in-data-late": 9, "in-data-early": 2, "in-head": 2,
                 "boundary": 2}.get(fault["point"], 1)
    left, right, elen, esucc = choose_interfaces(rng, orders, maxlen, want,
                                                 min_c)
    c = elen - 1
    case = {"engine": kind, "family": fam, "order": spec, "reverse": reverse,
            "start_vel_rev": start_rev, "subcycles": ctx["nsub"],
            "timestep": ctx["timestep"], "maxlen": maxlen,
            "interfaces": [left, right], "start": {
                "x": start["raw_x"], "v": start["v"], "box": box_start},
            "expect": {"frames": elen, "success": esucc}, "label": label}
    if fault:
        point = fault["point"]
        if point in ("nofile", "empty"):
            at = 0
        elif point == "in-first":
            at = 0.5
        elif point == "after-first":
            at = 1
        elif point == "boundary":
            at = rng.randint(min(2, c), c) if c >= 1 else 0
        elif point == "in-head":
            at = rng.randint(1, max(1, c - 1)) + 0.2
        elif point == "in-data-early":
            at = rng.randint(1, min(3, max(1, c - 1))) + 0.75
        elif point == "in-data-late":
            at = rng.randint(min(8, max(1, c - 1)), max(1, c - 1)) + 0.75
        elif point == "in-stop-frame":
            at = c + 0.6
        else:   # early0
            at = rng.randint(1, max(1, c))
        at = min(at, c) if point in ("early0", "boundary", "after-first") \
            else min(at, c + 0.9)
        pl["fault"] = {"at": at, "how": fault["how"],
                       "nofile": point == "nofile",
                       "code": fault.get("code", 1), "sig": fault.get("sig", 9)}
        case["fault"] = dict(pl["fault"], point=point)
    pl["sched"] = [] if fam == "order-raises" or (
        fam == "fault" and rng.random() < .5) else gen_sched(rng, nfr)
    pl["run_dir"] = os.path.join(cdir, "baton")
    case["plan"] = {k: pl[k] for k in ("mode", "burst", "sched", "boxes",
                                       "model", "lag", "trr", "pre_idle",
                                       "linger", "child", "create_step",
                                       "fmt", "shuffle", "fast_exit",
                                       "midread")}
    baton = bt.Baton(pl["run_dir"], pl["mode"], K=K_POLLS)
    plan_file = os.path.join(cdir, "plan.json")
    with open(plan_file, "w") as fh:
        json.dump(pl, fh)
    os.environ["VF_STUB_PLAN"] = plan_file
    system = System()
    system.config, system.vel_rev = start_cfg, start_rev
    path = Path(maxlen=maxlen)
    ens = {"ens_name": "007", "interfaces": (left, (left + right) / 2, right)}
    import infretis.classes.engines.enginebase as eb
    tap = ReaderTap(baton, pl["midread"] if pl["mode"] == "baton" else 0)
    baton.install(rig.module(), [eb] if kind == "gromacs" else [])
    if bomb:
        engine.order_function = OrderBomb(engine.order_function, bomb)
    outcome, info, site = None, "", "?"
    try:
        success, _status = engine.propagate(path, ens, system, reverse=reverse)
        outcome = "returned"
    except bt.BatonHang as exc:
        outcome, info = "hang", str(exc)
    except bt.BatonWatchdog as exc:
        outcome, info = "watchdog", str(exc)
    except Exception as exc:
        outcome, info = "raised", f"{type(exc).__name__}: {exc}"[:300]
        site = _raise_site(exc)
    finally:
        try:
            rep = baton.process_report()
        finally:
            baton.uninstall()
            baton.cleanup()
            tap.close()
            os.environ.pop("VF_STUB_PLAN", None)
    out.res["n"] += 1
    out.ev(f"{kind}:{fam}:{outcome}")
    out.ev(f"{kind}:polls", baton.polls)
    out.ev(f"{kind}:mode-{pl['mode']}")
    traj_calls = [nf for nm, nf in tap.calls if "-vel-" not in nm]
    out.ev(f"{kind}:reader-polls", len(traj_calls))
    out.ev(f"{kind}:reader-polls-with>=2-frames",
           sum(1 for nf in traj_calls if nf >= 2))
    if pl["boxes"]:
        out.ev(f"{kind}:cases-with-varying-box")
    if any(abs(a - round(a)) > 1e-9 for a in pl["sched"]):
        out.ev(f"{kind}:cases-with-cut-inside-frame")
    case["outcome"] = outcome + (": " + info if info else "")
    case["polls"] = baton.polls
    if outcome == "watchdog":
        out.res["inconclusive"].append(f"{kind} case hit the harness "
                                       f"watchdog: {info} {case}")
        return None
    # (5) the external program is stopped -----------------------------------
    out.reach("process_stopped")
    if rep["running"]:
        out.viol(f"{kind}:program-still-running-after-propagate-{outcome}",
                 f"pids {rep['running']} alive after propagate {outcome} "
                 f"({info})", case)
    elif rep["survivors"]:
        out.viol(f"{kind}:process-group-member-survives-propagate-{outcome}",
                 f"processes {rep['survivors']} of the program's process "
                 f"group alive after propagate {outcome}", case)
    if tap.grown:
        out.ev(f"{kind}:file-grew-during-a-read", tap.grown)
    if bomb:
        out.ev(f"{kind}:order-function-raised-mid-run:{outcome}")
        fired = engine.order_function.calls >= bomb
        if not fired:
            out.ev(f"{kind}:order-raises:path-ended-before-the-failure")
        elif outcome != "raised" or "injected" not in info:
            out.viol(f"{kind}:injected-order-failure-not-propagated",
                     f"{outcome} {info}", case)
        out.res["sigs"].append(_sig(case) + f"|bomb{bomb}")
        return None
    # the program was started from the start phase point ---------------------
    tfile = os.path.join(pl["run_dir"], "truth.json")
    if os.path.isfile(tfile):
        out.reach("program_input")
        with open(tfile) as fh:
            seen = json.load(fh)
        probs = []
        if _maxdiff(seen["x0"], start["raw_x"]) > 1e-6:
            probs.append(f"positions {seen['x0']}")
        if _maxdiff(seen["v0"], v_run) > 1e-6:
            probs.append(f"velocities {seen['v0']} (expected {v_run})")
        if seen["nframes"] != nfr or seen["nsub"] != ctx["nsub"] or \
                abs(seen["dt"] - ctx["timestep"]) > 1e-12:
            probs.append(f"frames/subcycles/dt {seen['nframes']}/"
                         f"{seen['nsub']}/{seen['dt']}")
        if probs:
            out.viol(f"{kind}:program-started-from-wrong-state",
                     "; ".join(probs), case)
    # (6) failures raise ------------------------------------------------------
    if fault and fault["point"] != "early0":
        out.reach("failure_raises")
        out.ev(f"fault:{kind}:{fault['point']}:{fault['how']}"
               f"{fault.get('code', fault.get('sig'))}:{outcome}")
        how = pl["fault"]["how"]
        if outcome == "hang":
            where = fault["point"]
            if kind == "gromacs" and at != int(at):
                p = 8 if pl["trr"]["double"] else 4
                size = sl.trr_header_size(p == 8) + 21 * p
                off = min(size - 1, max(1, int(round((at - int(at)) * size))))
                where = ("inside-frame-data-after-header"
                         if off >= sl.trr_header_size(p == 8)
                         else "inside-frame-header")
            out.viol(f"{kind}:no-return-no-raise-within-K-polls:{where}",
                     f"program died ({pl['fault']}) and propagate neither "
                     f"returned nor raised within {K_POLLS} polls", case)
        elif outcome == "returned":
            last = float(path.phasepoints[-1].order[0]) if path.length else None
            if last is None or (left < last < right and path.length < maxlen):
                out.viol(f"{kind}:failure-returns-path:{how}",
                         f"program died ({pl['fault']}) before the stop frame "
                         f"{c} was complete; propagate returned success="
                         f"{success} with {path.length} frames, the last one "
                         f"(order {last!r}) inside ({left}, {right})", case)
            else:
                # complete by the engine's own account although the stop
                # frame was never written: the frame oracles find the cause
                out.ev(f"{kind}:fault-case-returned-a-path-complete-by-its-"
                       "stored-orders")
                judge_path(out, kind, engine, spec, case, path, success,
                           start, start_rev, reverse, left, right, maxlen,
                           truth, {"len": elen, "success": esucc},
                           [nf for nm, nf in tap.calls
                            if nm.endswith(".lammpstrj")],
                           tol_ind=1e-7 if kind == "cp2k" else 1e-9,
                           tol_first=1e-4 if kind == "gromacs" else 1e-6)
        out.res["sigs"].append(_sig(case))
        return None
    if outcome != "returned":
        if fam == "early0":
            out.ev(f"{kind}:early0:raised")
            return None
        out.viol(f"{kind}:propagate-raised-on-healthy-program:{site}"
                 if outcome == "raised" else
                 f"{kind}:no-return-within-K-polls-after-exit",
                 f"{outcome}: {info}", case)
        return None
    batches = [nf for nm, nf in tap.calls if nm.endswith(".lammpstrj")]
    expect = {"len": elen, "success": esucc}
    if fam == "early0":
        expect = None
        out.ev(f"{kind}:early0:returned-{path.length}-frames-success-{success}")
    res = judge_path(out, kind, engine, spec, case, path, success, start,
                     start_rev, reverse, left, right, maxlen, truth, expect,
                     batches, tol_ind=1e-7 if kind == "cp2k" else 1e-9,
                     short_ok=fam == "early0",
                     tol_first=1e-4 if kind == "gromacs" else 1e-6,
                     short_mech=f"{kind}:frames-on-disk-not-delivered-after-"
                     "clean-exit" if rep["returncodes"][-1:] == [0] else None)
    if path.length >= 2:
        out.res["sigs"].append(_sig(case))
    if len(out.res["samples"]) < 2 and path.length >= 3 and rng.random() < .3:
        out.res["samples"].append(dict(case, frames=path.length,
                                       success=bool(success)))
    if res is not None:
        res["path"], res["engine"], res["cdir"] = path, engine, cdir
    return res


def _sig(case):
    pl = case.get("plan", {})
    return "|".join(str(x) for x in (
        case["engine"], case["family"], case["order"]["class"],
        case["order"].get("periodic"), case["reverse"], case["start_vel_rev"],
        case["subcycles"], case["maxlen"], case["expect"], pl.get("mode"),
        pl.get("burst"), len(pl.get("sched") or []), bool(pl.get("boxes")),
        pl.get("lag"), pl.get("trr"), case.get("fault")))


def external_cases(out, job, scratch, rng):
    for kind in EXT:
        rig = ExtRig(kind, scratch, job["seed"] % 10007)
        # normal family -------------------------------------------------------
        for _ in range(job["normal"]):
            ctx = gen_context(rng, kind, "normal")
            spec = rng.choice(ORDERS3D)
            res = run_external(
                out, rig, rng, "normal", spec, ctx, rng.random() < 0.5,
                rng.random() < 0.3, rng.randint(3, 40),
                rng.choice(["right", "left", "right", "left", "maxlen",
                            "start_outside"]))
            _tidy(res)
        # retrace pairs -------------------------------------------------------
        for _ in range(job["retrace"]):
            ctx = gen_context(rng, kind, "retrace")
            spec = rng.choice(ORDERS3D)
            maxlen = rng.randint(6, 30)
            fwd = run_external(out, rig, rng, "retrace-fwd", spec, ctx, False,
                               False, maxlen, rng.choice(["right", "maxlen"]))
            if fwd is None or len(fwd["frames"]) < 3:
                _tidy(fwd)
                continue
            k = rng.randint(1, len(fwd["frames"]) - 1)
            pp = fwd["path"].phasepoints[k]
            bwd = run_external(out, rig, rng, "retrace-bwd", spec, ctx, True,
                               False, k + rng.randint(2, 6), "maxlen",
                               start_cfg=pp.config, label=f"from frame {k}")
            if bwd is not None:
                tol = 2e-4 if kind == "gromacs" else 2e-6
                judge_retrace(out, kind, {"engine": kind, "order": spec,
                                          "from_frame": k, "plan":
                                          ctx["plan"]["model"]},
                              fwd, bwd, k, tol)
            _tidy(fwd)
            _tidy(bwd)
        # fault grid ----------------------------------------------------------
        for gid in job["fault_ids"]:
            point, (how, code) = GRID[gid % len(GRID)]
            ctx = gen_context(rng, kind, "fault")
            ctx["plan"]["mode"] = "baton" if rng.random() < 0.85 else "free"
            fault = {"point": point, "how": how}
            fault["code" if how == "exit" else "sig"] = code
            spec = rng.choice(ORDERS3D)
            late = point == "in-data-late"
            run_external(out, rig, rng, "fault", spec, ctx,
                         rng.random() < 0.5, False,
                         rng.randint(14, 30) if late else rng.randint(5, 24),
                         rng.choice(["right", "left", "maxlen"]), fault=fault)
        for _ in range(job["early0"]):     # order function raises mid-run
            ctx = gen_context(rng, kind, "fault")
            ctx["plan"].update(mode="baton", burst=[1], midread=0)
            run_external(out, rig, rng, "order-raises", rng.choice(ORDERS3D),
                         ctx, rng.random() < 0.5, False, rng.randint(20, 30),
                         "maxlen", bomb=rng.randint(3, 8))
        for _ in range(job["early0"]):
            ctx = gen_context(rng, kind, "fault")
            res = run_external(out, rig, rng, "early0", rng.choice(ORDERS3D),
                               ctx, rng.random() < 0.5, False,
                               rng.randint(6, 20), "maxlen",
                               fault={"point": "early0", "how": "exit",
                                      "code": 0})
            _tidy(res)
        shutil.rmtree(rig.root, ignore_errors=True)


def _tidy(res):
    if res and res.get("cdir"):
        shutil.rmtree(res["cdir"], ignore_errors=True)


# --------------------------------------------------------------------------
# in-process engines
# --------------------------------------------------------------------------
def run_inproc(out, kind, engine, spec, case, start_cfg, start_rev, reverse,
               left, right, maxlen, truth=None, expect=None, tol_ind=1e-9):
    from infretis.classes.path import Path
    from infretis.classes.system import System
    from vf.oracles import trajref as tr
    start = tr.read_frame(start_cfg)
    if case.get("box") is not None and start["box"] is None:
        start["box"] = case["box"]
    system = System()
    system.config, system.vel_rev = start_cfg, start_rev
    path = Path(maxlen=maxlen)
    ens = {"ens_name": "003", "interfaces": (left, (left + right) / 2, right)}
    out.res["n"] += 1
    try:
        success, _ = engine.propagate(path, ens, system, reverse=reverse)
    except Exception as exc:
        out.viol(f"{kind}:propagate-raised-on-healthy-program",
                 f"{type(exc).__name__}: {exc}"[:300], case)
        return None
    out.ev(f"{kind}:propagations")
    out.ev(f"{kind}:reverse" if reverse else f"{kind}:forward")
    res = judge_path(out, kind, engine, spec, case, path, success, start,
                     start_rev, reverse, left, right, maxlen, truth, expect,
                     None, tol_ind=tol_ind, tol_truth=1e-6)
    if path.length >= 2:
        out.res["sigs"].append("|".join(str(c) for c in (
            kind, spec, reverse, start_rev, maxlen, case.get("subcycles"),
            path.length, bool(success), case.get("sigx"))))
    if res is not None:
        res["path"] = path
    return res


def lattice_cases(out, job, scratch, rng):
    import numpy as np
    from vf.plugins.lattice import BallisticEngine, LatticeEngine, SiteOrder
    wdir = os.path.join(scratch, "lat")
    os.makedirs(wdir, exist_ok=True)
    for i in range(job["ballistic"] + job["lattice"]):
        ball = i < job["ballistic"]
        nsub = rng.choice([1, 1, 2, 3, 7, 10])
        usev = rng.random() < 0.5
        spec = {"class": "Site", "velocity": usev}
        lo, hi = -rng.randint(2, 9), rng.randint(3, 12)
        if ball:
            eng = BallisticEngine(subcycles=nsub, lo=lo, hi=hi)
        else:
            eng = LatticeEngine(subcycles=nsub, wall=lo)
        eng.order_function = SiteOrder(velocity=usev)
        eng.exe_dir = wdir
        eng.rgen = np.random.default_rng(rng.randrange(2 ** 31))
        x0, v0 = rng.randint(lo + 1, hi - 1), rng.choice([-1, 1])
        start_rev, reverse = rng.random() < 0.3, rng.random() < 0.5
        maxlen = rng.choice([2, 3, 5, 8, 13, 30, 60])
        left = rng.randint(lo - 1, x0) - 0.4 if rng.random() < .8 else -99.4
        right = rng.randint(x0, hi + 1) + 0.6 if rng.random() < .8 else 99.6
        if rng.random() < 0.08:
            left, right = x0 + 0.6, x0 + 5.6       # start outside
        f = os.path.join(wdir, f"s{i}.lat")
        with open(f, "w") as fh:
            fh.write(f"{x0} {v0}\n")
        case = {"engine": "ballistic" if ball else "lattice", "x0": x0,
                "v0": v0, "lo": lo, "hi": hi, "subcycles": nsub,
                "order": spec, "reverse": reverse, "start_vel_rev": start_rev,
                "maxlen": maxlen, "interfaces": [left, right],
                "sigx": (x0, v0, lo, hi, left, right)}
        truth = expect = None
        if ball:  # the ballistic dynamics is known: simulate it independently
            x, v = x0, v0 * int(_sgn(start_rev) * _sgn(reverse))
            truth = []
            for _ in range(maxlen + 1):
                truth.append({"x": [[float(x), 0., 0.]],
                              "v": [[float(v), 0., 0.]], "box": None})
                for _ in range(nsub):
                    if v == 0:
                        v = 1
                    if lo <= x + v <= hi:
                        x += v
                    else:
                        v = -v
            orders = [t["x"][0][0] + (0.25 * t["v"][0][0] * _sgn(reverse)
                                      if usev else 0.0) for t in truth]
            c = next((k for k in range(maxlen) if not
                      left < orders[k] < right), None)
            if c is None:
                expect = {"len": maxlen, "success": False}
            elif c < maxlen - 1:
                expect = {"len": c + 1, "success": True}
        res = run_inproc(out, case["engine"], eng, spec, case, (f, 0),
                         start_rev, reverse, left, right, maxlen, truth,
                         expect, tol_ind=1e-12)
        if ball and res and len(res["frames"]) >= 3 and not reverse and \
                not start_rev and rng.random() < 0.7:
            k = rng.randint(1, len(res["frames"]) - 1)
            pp = res["path"].phasepoints[k]
            bcase = dict(case, reverse=True, label=f"backward from frame {k}")
            bwd = run_inproc(out, "ballistic", eng, spec, bcase, pp.config,
                             False, True, -99.4, 99.6, k + 3, None, None,
                             tol_ind=1e-12)
            if bwd:
                judge_retrace(out, "ballistic", bcase, res, bwd, k, 1e-12)
        for fn in os.listdir(wdir):
            os.remove(os.path.join(wdir, fn))


def turtle_cases(out, job, scratch, rng):
    import numpy as np
    from infretis.classes.engines.turtlemdengine import TurtleMDEngine
    from infretis.classes.orderparameter import create_orderparameter
    from vf.stubs import stublib as sl
    wdir = os.path.join(scratch, "tmd")
    os.makedirs(wdir, exist_ok=True)
    for i in range(job["turtle"]):
        one_d = rng.random() < 0.5
        nsub = rng.choice([1, 2, 3, 10])
        temp = rng.choice([0.07, 0.3, 1.0])
        integ = {"class": "LangevinInertia", "settings": {
            "gamma": rng.choice([0.3, 1.0, 5.0]), "beta": 1.0 / temp}}
        if one_d:
            box = None
            eng = TurtleMDEngine(
                0.025, nsub, temp, 1.0, integ,
                {"class": "DoubleWell", "settings": {"a": 1.0, "b": 2.0,
                                                     "c": 0.0}},
                {"mass": [1.0], "name": ["Z"], "pos": [[-1.0]]},
                {"periodic": [False]})
            spec = rng.choice([
                {"class": "Position", "index": [0, 0], "periodic": False},
                {"class": "Velocity", "index": 0, "dim": "x"}])
            x0 = [[_r6(rng.uniform(-1.2, 1.2)), 0.0, 0.0]]
            v0 = [[_r6(rng.uniform(-1, 1)), 0.0, 0.0]]
            names = ["Z"]
        else:
            L = rng.choice([2.5, 3.0, 4.0])
            box = [L, L, L]
            eng = TurtleMDEngine(
                0.002, nsub, temp * 300, 0.0083144621,
                {"class": "LangevinInertia", "settings": {
                    "gamma": rng.choice([1.0, 10.0]),
                    "beta": 1.0 / (0.0083144621 * temp * 300)}},
                {"class": "LennardJones", "settings": {"parameters": {
                    "1": {"sigma": 0.3, "epsilon": 25.0, "rcut": 1.2}}}},
                {"mass": [1.008, 1.008], "name": ["H", "H"],
                 "pos": [[0.0, 0.0, 0.0], [0.4, 0.0, 0.0]]},
                {"periodic": [True, True, True], "low": [0, 0, 0],
                 "high": box})
            spec = rng.choice(ORDERS3D)
            a = [_r6(rng.uniform(0.2, L - 0.2)) for _ in range(3)]
            d = rng.uniform(0.32, 0.6)
            x0 = [a, [_r6(a[0] + d), _r6(a[1] + rng.uniform(-.05, .05)),
                      a[2]]]
            v0 = [[_r6(rng.uniform(-3, 3)) for _ in range(3)]
                  for _ in range(2)]
            names = ["H", "H"]
        eng.order_function = create_orderparameter({"orderparameter":
                                                    dict(spec)})
        eng.exe_dir = wdir
        eng.rgen = np.random.default_rng(rng.randrange(2 ** 31))
        f = os.path.join(wdir, f"s{i}.xyz")
        with open(f, "w") as fh:
            fh.write(sl.xyz_conf(names, x0, v0, box))
        start_rev, reverse = rng.random() < 0.3, rng.random() < 0.5
        from vf.oracles import trajref as tr
        o0 = tr.order_value(spec, x0, _scaled(v0, _sgn(start_rev)), box)
        w = rng.choice([0.02, 0.1, 0.5, 3.0])
        left, right = o0 - w * rng.uniform(0.3, 1), o0 + w * rng.uniform(.3, 1)
        if rng.random() < 0.08:
            left, right = o0 + 0.01, o0 + 1.0
        maxlen = rng.choice([3, 5, 10, 25, 60])
        case = {"engine": "turtlemd", "dim": 1 if one_d else 3, "x0": x0,
                "v0": v0, "box": box, "subcycles": nsub, "order": spec,
                "reverse": reverse, "start_vel_rev": start_rev,
                "maxlen": maxlen, "interfaces": [left, right],
                "integrator": integ, "sigx": (x0, v0)}
        run_inproc(out, "turtlemd", eng, spec, case, (f, rng.choice([0, None])),
                   start_rev, reverse, left, right, maxlen, tol_ind=1e-7)
        for fn in os.listdir(wdir):
            os.remove(os.path.join(wdir, fn))


def ase_cases(out, job, scratch, rng):
    import ase
    import numpy as np
    from ase import units
    from infretis.classes.engines.ase_engine import ASEEngine
    from infretis.classes.orderparameter import create_orderparameter
    from vf.oracles import trajref as tr
    wdir = os.path.join(scratch, "ase")
    os.makedirs(wdir, exist_ok=True)
    calc = os.path.join(_repo_examples(), "ase", "H2", "H2-calc.py")
    for i in range(job["ase"]):
        np.random.seed(rng.randrange(2 ** 31))   # ASE Langevin uses it
        free = rng.random() < 0.4
        integ = "velocityverlet" if free or rng.random() < 0.6 else "langevin"
        nsub = rng.choice([1, 2, 5])
        dt = rng.choice([0.2, 0.5])
        eng = ASEEngine(dt, 300.0, nsub, ".", integ,
                        {"module": calc, "class": "LennardJonesCalc",
                         "sigma": 0.0 if free else 3.0, "epsilon": 0.2591,
                         "rc": 12.0, "smooth": False},
                        langevin_friction=0.01, langevin_fixcm=False,
                        exe_path=wdir)
        spec = rng.choice(ORDERS3D)
        eng.order_function = create_orderparameter({"orderparameter":
                                                    dict(spec)})
        eng.exe_dir = wdir
        # LJ cutoff 12: with a small cell, image pairs sit near the cutoff and
        # ASE's skin neighbour list makes the force depend on history (not
        # time reversible, not the engine's doing): retrace cases use L = 30
        L = 30.0 if integ == "velocityverlet" else rng.choice([9.0, 12.0, 30.])
        d = rng.uniform(3.2, 5.5)
        a = [rng.uniform(1, 5) for _ in range(3)]
        x0 = [a, [a[0] + d, a[1] + rng.uniform(-.3, .3), a[2]]]
        v0 = [[rng.uniform(-.05, .05) * units.Ang / units.fs
               for _ in range(3)] for _ in range(2)]
        atoms = ase.Atoms("H2", positions=x0, cell=[L, L, L], pbc=True)
        atoms.set_velocities(np.array(v0))
        f = os.path.join(wdir, f"s{i}.traj")
        atoms.write(f)
        start = tr.read_frame((f, 0))
        start_rev, reverse = rng.random() < 0.3, rng.random() < 0.5
        maxlen = rng.choice([4, 8, 15, 30])
        o0 = tr.order_value(spec, start["x"],
                            _scaled(start["v"], _sgn(start_rev)), start["box"])
        w = rng.choice([0.02, 0.2, 1.0]) * (0.1 if spec["class"] in (
            "Velocity", "Distancevel") else 1.0)
        left, right = o0 - w * rng.uniform(.3, 1), o0 + w * rng.uniform(.3, 1)
        truth = None
        if free:
            vr = _scaled(start["v"], _sgn(start_rev) * _sgn(reverse))
            truth = [{"x": [[c + w_ * k * nsub * dt * units.fs
                             for c, w_ in zip(r, rv)]
                            for r, rv in zip(start["x"], vr)],
                      "v": vr, "box": None} for k in range(maxlen + 1)]
        case = {"engine": "ase", "integrator": integ, "free_flight": free,
                "x0": x0, "v0": v0, "cell": L, "subcycles": nsub,
                "timestep": dt, "order": spec, "reverse": reverse,
                "start_vel_rev": start_rev, "maxlen": maxlen,
                "interfaces": [left, right], "sigx": i}
        res = run_inproc(out, "ase", eng, spec, case, (f, 0), start_rev,
                         reverse, left, right, maxlen, truth)
        if integ == "velocityverlet" and res and not reverse and \
                not start_rev and len(res["frames"]) >= 3:
            k = rng.randint(1, len(res["frames"]) - 1)
            bcase = dict(case, reverse=True, label=f"backward from frame {k}")
            bwd = run_inproc(out, "ase", eng, spec, bcase,
                             res["path"].phasepoints[k].config, False, True,
                             -1e9, 1e9, k + 2)
            if bwd:
                judge_retrace(out, "ase", bcase, res, bwd, k, 1e-7)
        for fn in os.listdir(wdir):
            os.remove(os.path.join(wdir, fn))


def work(job, scratch):
    import logging
    logging.disable(logging.CRITICAL)
    rng = random.Random(job["seed"])
    out = Out()
    external_cases(out, job, scratch, rng)
    lattice_cases(out, job, scratch, rng)
    turtle_cases(out, job, scratch, rng)
    ase_cases(out, job, scratch, rng)
    return out.res
