"""C12 - every engine returns the trajectory it actually ran.

External engines (LAMMPS, CP2K, GROMACS) are the real classes of /repo driven
against the stub MD programs of vf/stubs (write schedule = data, baton or free
running); TurtleMD, ASE and the plug-in Lattice/Ballistic engines run in
process.  See DESIGN.md, section "C12".
"""
import importlib.util  # noqa: F401
import json
import math
import os
import random
import shutil
import sys

from vf.oracles.c12inproc import (ORDERS3D, ase_cases, lattice_cases, r6 as _r6,
                                 repo_examples as _repo_examples, turtle_cases)
from vf.oracles.c12judge import (Out, judge_path, judge_retrace,
                                 maxdiff as _maxdiff, scaled as _scaled,
                                 sgn as _sgn)

PROPERTY = "C12"
LEVEL = "fault_enumeration"
K_POLLS = 20
RULE = (
    "One case = one engine.propagate() call of a real engine class. External "
    "engines run against stub MD programs whose dynamics (free flight or a "
    "harmonic bond, velocity Verlet) is known to the harness and whose write "
    "schedule is data: frames per poll (1-6), byte cuts inside frames (also "
    "one byte before / after a frame end, and 'last frame minus its newline, "
    "then everything else and exit in one step'), per-frame box "
    "(LAMMPS/GROMACS), lagging velocity file (CP2K), TRR byte order / "
    "precision, helper process in the program's process group, in baton mode "
    "(the engine's own sleep() hands the writer one token: deterministic "
    "frames-per-poll and cut patterns, logical poll clock; optionally the "
    "writer also advances right after the text reader consumed a line "
    "without newline = the file grows during a read) or free running. Cases "
    "are drawn per engine from "
    "order parameter {Position, Distance(periodic or not), Velocity, "
    "Distancevel} x reverse x start vel_rev x subcycles 1-10 x maxlen 3-40 x "
    "stop kind {cross right, cross left, length limit, start outside}; "
    "retrace pairs (forward, then backward from frame k); FAULT ENUMERATION: "
    "the grid death point {no file, empty file, inside first frame, after "
    "first frame, frame boundary, inside a frame header, inside frame data "
    "early, inside frame data late, inside the would-be stop frame} x "
    "{exit 1, 2, 139, 255, SIGKILL, SIGSEGV, SIGABRT, SIGTERM} is covered "
    "completely for each external engine in every run (quick: once, "
    "thorough: 10 contexts each), plus early exit 0 and 'the order function "
    "raises at frame 1-6 while the program runs'. In-process engines: "
    f"TurtleMD (Langevin), ASE (VelocityVerlet/Langevin), Lattice, Ballistic "
    "with random start points, interfaces, subcycles and length limits. "
    "Oracles per call: frame 0 = start phase point; stored order of frame k "
    "= order recomputed from the (file, index) it references with its own "
    "coordinates, box and vel_rev, both through the engine's own "
    "dump_frame/_read_configuration/calculate_order and through an "
    "independent reader + order function, and the referenced frame = frame k "
    "of the known dynamics; stop at the first outside frame or at maxlen, "
    "success only in the former case; backward retraces forward; no process "
    "of the program's group alive after return; a failing program makes "
    f"propagate raise within {K_POLLS} polls after its exit. Non-trivial = a "
    "returned path with >= 2 frames or a fault case whose death point was "
    "reached; distinct = distinct (engine, family, order, directions, "
    "subcycles, maxlen, stop kind, mode, burst/cut schedule, box schedule, "
    "fault).")
ASSUMPTIONS = [
    "the stub programs speak the file protocol of the real programs (formats "
    "typed in from the format definitions); what is decided is the engine-"
    "side code",
    "order values are kept >= 5e-4 away from the interfaces and crossings are "
    "placed before frame maxlen-1: behaviour at exact equality and at "
    "'crossing on the very last allowed frame' is not fixed by the property",
    "a program that exits 0 after writing fewer frames than requested is not "
    "required to raise; only success=False and correct frames are demanded",
    "'the external program is stopped when propagation ends' is also demanded "
    "when propagate ends with an exception (order function or reader raising)",
    "letting the writer run between two readline() calls of the engine's text "
    "reader is a legal interleaving (the program is a concurrent process)",
    "if the stop frame was completely written before the program failed, "
    "both returning the complete path and raising are accepted",
    "hangs are decided by counting the engine's own sleep() calls after the "
    "program exited; the wall-clock watchdog only yields inconclusive",
    "TurtleMD is driven with LangevinInertia only (TurtleMDEngine passes "
    "seed= to every integrator, VelocityVerlet does not accept it), so "
    "TurtleMD has no retrace cases",
]
MUST_REACH = ["first_frame", "frame_order_own_extraction",
              "frame_order_independent", "frame_is_kth_of_dynamics",
              "stop_rule", "retrace", "process_stopped", "failure_raises",
              "program_input"]
JOB_TIMEOUT = 1500

HERE = os.path.dirname(os.path.abspath(__file__))
STUBS = os.path.abspath(os.path.join(HERE, "..", "stubs"))
EXT = ("lammps", "cp2k", "gromacs")
HOWS = [("exit", 1), ("exit", 2), ("exit", 139), ("exit", 255),
        ("signal", 9), ("signal", 11), ("signal", 6), ("signal", 15)]
POINTS = ["nofile", "empty", "in-first", "after-first", "boundary",
          "in-head", "in-data-early", "in-data-late", "in-stop-frame"]
GRID = [(p, h) for p in POINTS for h in HOWS]
BURSTS = [[1], [2], [3], [1, 2], [4, 1], [2, 3, 1], [5], [1, 1, 6], [2, 2]]


# --------------------------------------------------------------------------
# plan
# --------------------------------------------------------------------------
def plan(tier, seed):
    rng = random.Random(f"C12-{seed}")
    quick = tier == "quick"
    njobs = 16 if quick else 64
    reps = 1 if quick else 10          # contexts per fault-grid entry
    jobs = []
    for j in range(njobs):
        grid = [i for i in range(len(GRID) * reps) if i % njobs == j]
        jobs.append({
            "seed": rng.randrange(2 ** 31), "hashseed": j % 5,
            "normal": 5 if quick else 24, "retrace": 2 if quick else 9,
            "fault_ids": grid, "early0": 1 if quick else 2,
            "ballistic": 90 if quick else 240, "lattice": 40 if quick else 90,
            "turtle": 30 if quick else 60, "ase": 10 if quick else 20})
    return jobs


# --------------------------------------------------------------------------
# helpers
# --------------------------------------------------------------------------
def _stub(name):
    p = os.path.join(STUBS, name)
    return p if os.access(p, os.X_OK) else f"{sys.executable} {p}"


# --------------------------------------------------------------------------
# external engines against the stubs
# --------------------------------------------------------------------------
class OrderBomb:
    """Order parameter that fails at its n-th evaluation (a user-supplied
    order function raising in the middle of a propagation)."""

    def __init__(self, real, n):
        self.real, self.n, self.calls = real, n, 0
        self.velocity_dependent = real.velocity_dependent

    def calculate(self, system):
        self.calls += 1
        if self.calls == self.n:
            raise RuntimeError("order function failed (injected)")
        return self.real.calculate(system)


def _raise_site(exc):
    """Innermost function of the infretis package in the traceback."""
    import traceback
    site = "?"
    for fr in traceback.extract_tb(exc.__traceback__):
        if "infretis" in fr.filename:
            site = fr.name
    return site


class ExtRig:
    def __init__(self, kind, scratch, seed):
        import numpy as np
        self.kind, self.root = kind, os.path.join(scratch, kind)
        os.makedirs(self.root, exist_ok=True)
        self.rgen = np.random.default_rng(seed)
        sub = {"lammps": "lammps/H2/lammps_input", "cp2k": "cp2k/H2/cp2k_input",
               "gromacs": "gromacs/H2/gromacs_input"}[kind]
        self.inp = os.path.join(self.root, "input")
        shutil.copytree(os.path.join(_repo_examples(), sub), self.inp)
        for junk in ("infretis.mdp", "topol.tpr"):
            if os.path.exists(os.path.join(self.inp, junk)):
                os.remove(os.path.join(self.inp, junk))
        self.count = 0

    def module(self):
        import importlib
        return importlib.import_module(
            f"infretis.classes.engines.{self.kind}")

    def engine(self, timestep, nsub, exe_dir):
        os.environ.pop("VF_STUB_PLAN", None)
        if self.kind == "lammps":
            from infretis.classes.engines.lammps import LAMMPSEngine
            e = LAMMPSEngine(_stub("fake_lmp.py"), self.inp, timestep, nsub,
                             300.0, exe_path=self.root, sleep=0.0)
        elif self.kind == "cp2k":
            from infretis.classes.engines.cp2k import CP2KEngine
            e = CP2KEngine(_stub("fake_cp2k.py"), self.inp, timestep, nsub,
                           300.0, exe_path=self.root, sleep=0.0)
        else:
            from infretis.classes.engines.gromacs import GromacsEngine
            e = GromacsEngine(_stub("fake_gmx.py"), self.inp, timestep, nsub,
                              300.0, exe_path=self.root)
            e.set_mdrun({"wmdrun": _stub("fake_gmx.py") + " mdrun",
                         "exe_dir": exe_dir})
        e.exe_dir = exe_dir
        e.rgen = self.rgen
        return e

    def write_start(self, cdir, x, v, box, rng):
        from vf.stubs import stublib as sl
        if self.kind == "lammps":
            f = os.path.join(cdir, "start.lammpstrj")
            txt = sl.lammps_frame(0, x, v, box, "%.17g",
                                  trailing_id=rng.random() < 0.5)
        elif self.kind == "cp2k":
            f = os.path.join(cdir, "start.xyz")
            txt = sl.xyz_conf(["H", "H"], x, v, box)
        else:
            f = os.path.join(cdir, "start.g96")
            txt = sl.g96_conf(x, v, box)
        with open(f, "w") as fh:
            fh.write(txt)
        return f


def gen_context(rng, kind, fam):
    """Random dynamics + schedule context of one external case."""
    nsub = rng.choice([1, 1, 2, 3, 5, 10])
    vconv = {"lammps": 1.0, "gromacs": 1.0, "cp2k": 21.876912541518593}[kind]
    x0 = [[_r6(rng.uniform(1, 4)) for _ in range(3)]]
    x0.append([_r6(x0[0][0] + rng.uniform(2, 7)),
               _r6(x0[0][1] + rng.uniform(-.5, .5)),
               _r6(x0[0][2] + rng.uniform(-.5, .5))])
    v0 = [[_r6(rng.choice([-1, 1]) * rng.uniform(0.3, 2.0)) for _ in range(3)]
          for _ in range(2)]
    frame_dt = rng.uniform(0.05, 0.3)
    timestep = float("%.6g" % (frame_dt / (nsub * vconv)))
    d = x0[1][0] - x0[0][0]
    lx = [_r6(d * 1.3), _r6(d * 1.7), _r6(d * 2.6), 30.0, _r6(d * 1.45)]
    if kind == "lammps":
        lo = [_r6(rng.uniform(-2, 1)) for _ in range(3)]
        box0 = [[lo[i], _r6(lo[i] + (rng.choice(lx) if i == 0 else 30.0))]
                for i in range(3)]
    elif kind == "gromacs":
        box0 = [rng.choice(lx), 30.0, 30.0]
    else:
        box0 = rng.choice([None, [round(rng.choice(lx), 4), 30.0, 30.0]])
    boxes = None
    if kind != "cp2k" and fam == "normal" and rng.random() < 0.6:
        boxes = []
        for _ in range(rng.randint(2, 5)):
            if kind == "lammps":
                lo = [_r6(rng.uniform(-2, 1)) for _ in range(3)]
                boxes.append([[lo[i], _r6(lo[i] + (rng.choice(lx) if i == 0
                                                  else 30.0))]
                              for i in range(3)])
            else:
                boxes.append([rng.choice(lx), 30.0, 30.0])
    model = {"kind": "free"}
    if rng.random() < 0.3:
        tau = nsub * timestep * vconv   # length travelled per frame at |v|=1
        model = {"kind": "bond", "kappa": _r6(rng.uniform(0.5, 4) /
                                             (tau / vconv * 10) ** 2),
                 "r0": _r6(d * rng.uniform(0.8, 1.2))}
    pl = {"mode": "baton" if rng.random() < 0.8 else "free",
          "pre_idle": rng.choice([0, 0, 1, 2]), "boxes": boxes,
          "model": model, "burst": rng.choice(BURSTS),
          "fmt": rng.choice(["%.17g", "%.10f", "%.9e"]),
          "shuffle": rng.random() < 0.5, "linger": rng.choice([0, 0, 1, 3]),
          "child": rng.random() < 0.5,
          "create_step": rng.random() < 0.3,
          "fast_exit": rng.random() < 0.3,
          "midread": rng.choice([0, 0, 0, 40]),
          "lag": rng.choice([[0], [0, 1], [0.5], [2, 0, 1], [0.3, 1.7]]),
          "trr": {"endian": rng.choice([">", "<"]),
                  "double": rng.random() < 0.4},
          "delays": [round(rng.uniform(0.0002, 0.003), 5)
                     for _ in range(rng.randint(1, 4))]}
    return {"nsub": nsub, "timestep": timestep, "x0": x0, "v0": v0,
            "box0": box0, "vconv": vconv, "plan": pl}


def gen_sched(rng, nframes):
    """Explicit cut schedule (positions in frames) or [] (burst driven)."""
    style = rng.choice(["burst", "burst", "cuts", "bytes", "tail"])
    if style == "burst":
        return []
    if style == "tail":
        # frame m-1 is on disk except for its final newline, then the program
        # writes everything else (and, with fast_exit, exits) in one step
        m = rng.randint(1, nframes - 1)
        return [float(k) for k in range(1, m)] + [m - 0.001, float(nframes)]
    pos, out = 0.0, []
    while pos < nframes:
        if style == "cuts":
            pos += rng.choice([0.3, 0.5, 1.0, 1.5, 2.0, 2.25, 0.05, 3.9, 0.97])
        else:   # creep over a frame end in tiny steps, then jump
            k = math.floor(pos) + 1
            out += [k - 0.02, k - 0.001, float(k), k + 0.001]
            pos = k + rng.choice([1.0, 2.0, 3.5])
        out.append(round(min(pos, nframes), 4))
    return out


def expected_orders(kind, spec, truth, reverse):
    from vf.oracles import trajref as tr
    vals, margin = [], 1.0
    for t in truth:
        x, box = t["x"], t["box"]
        if kind == "lammps":
            x = [[c - b[0] for c, b in zip(r, box)] for r in x]
            box = [b[1] - b[0] for b in box]
        vals.append(tr.order_value(spec, x, _scaled(t["v"], _sgn(reverse)),
                                   box))
        margin = min(margin, tr.half_box_margin(spec, x, box))
    return vals, margin


def choose_interfaces(rng, orders, maxlen, want, min_c=1):
    """-> (left, right, expected length, expected success)."""
    o = orders[:maxlen]
    if want == "start_outside":
        if rng.random() < 0.5:
            return o[0] - 3.0, o[0] - 0.25, 1, True
        return o[0] + 0.25, o[0] + 3.0, 1, True
    if want in ("right", "left") and maxlen >= 3:
        cands = []
        for c in range(max(1, min_c), maxlen - 1):
            hi, lo = max(o[:c]), min(o[:c])
            w = rng.uniform(0.3, 0.7)
            if o[c] > hi + 2e-3:
                cands.append((c, lo - rng.uniform(0.2, 2),
                              hi + w * (o[c] - hi)))
            if o[c] < lo - 2e-3:
                cands.append((c, lo - w * (lo - o[c]),
                              hi + rng.uniform(0.2, 2)))
        if cands:
            c, left, right = rng.choice(cands)
            return left, right, c + 1, True
    return (min(o) - rng.uniform(0.2, 2), max(o) + rng.uniform(0.2, 2),
            maxlen, False)


def run_external(out, rig, rng, fam, spec, ctx, reverse, start_rev, maxlen,
                 want, fault=None, start_cfg=None, label="", bomb=0):
    """One propagate of an external engine; returns judge_path's result."""
    from infretis.classes.path import Path
    from infretis.classes.system import System
    from vf import baton as bt
    from vf.oracles import trajref as tr
    from vf.stubs import stublib as sl
    kind = rig.kind
    rig.count += 1
    cdir = os.path.join(rig.root, f"c{rig.count}")
    os.makedirs(cdir)
    pl = dict(ctx["plan"])
    engine = rig.engine(ctx["timestep"], ctx["nsub"], cdir)
    from infretis.classes.orderparameter import create_orderparameter
    engine.order_function = create_orderparameter({"orderparameter":
                                                   dict(spec)})
    if start_cfg is None:
        f = rig.write_start(cdir, ctx["x0"], ctx["v0"], ctx["box0"], rng)
        start_cfg = (f, rng.choice([0, None]))
    start = tr.read_frame(start_cfg)
    if kind == "cp2k" and start["box"] is None:
        start["box"] = [30.0, 30.0, 30.0]
    # the dynamics the program must run: from the start positions with the
    # velocities in the direction of time asked for
    v_run = _scaled(start["v"], _sgn(start_rev) * _sgn(reverse))
    nfr = maxlen + 1
    trj = sl.trajectory(start["raw_x"], v_run, ctx["timestep"], ctx["nsub"],
                        nfr, pl["model"], sl.VCONV[{"lammps": "lmp",
                                                    "cp2k": "cp2k",
                                                    "gromacs": "gmx"}[kind]])
    box_start = start.get("raw_box", start["box"])
    truth = [{"x": x, "v": v,
              "box": sl.box_of_frame(k, box_start, pl)}
             for k, (x, v) in enumerate(trj)]
    orders, margin = expected_orders(kind, spec, truth, reverse)
    if margin < 1e-5:
        out.ev("skipped:distance-at-half-box")
        return None
    min_c = 1
    if fault:
        min_c = {"in-data-late": 9, "in-data-early": 2, "in-head": 2,
                 "boundary": 2}.get(fault["point"], 1)
    left, right, elen, esucc = choose_interfaces(rng, orders, maxlen, want,
                                                 min_c)
    c = elen - 1
    case = {"engine": kind, "family": fam, "order": spec, "reverse": reverse,
            "start_vel_rev": start_rev, "subcycles": ctx["nsub"],
            "timestep": ctx["timestep"], "maxlen": maxlen,
            "interfaces": [left, right], "start": {
                "x": start["raw_x"], "v": start["v"], "box": box_start},
            "expect": {"frames": elen, "success": esucc}, "label": label}
    if fault:
        point = fault["point"]
        if point in ("nofile", "empty"):
            at = 0
        elif point == "in-first":
            at = 0.5
        elif point == "after-first":
            at = 1
        elif point == "boundary":
            at = rng.randint(min(2, c), c) if c >= 1 else 0
        elif point == "in-head":
            at = rng.randint(1, max(1, c - 1)) + 0.2
        elif point == "in-data-early":
            at = rng.randint(1, min(3, max(1, c - 1))) + 0.75
        elif point == "in-data-late":
            at = rng.randint(min(8, max(1, c - 1)), max(1, c - 1)) + 0.75
        elif point == "in-stop-frame":
            at = c + 0.6
        else:   # early0
            at = rng.randint(1, max(1, c))
        at = min(at, c) if point in ("early0", "boundary", "after-first") \
            else min(at, c + 0.9)
        pl["fault"] = {"at": at, "how": fault["how"],
                       "nofile": point == "nofile",
                       "code": fault.get("code", 1), "sig": fault.get("sig", 9)}
        case["fault"] = dict(pl["fault"], point=point)
    pl["sched"] = [] if fam == "order-raises" or (
        fam == "fault" and rng.random() < .5) else gen_sched(rng, nfr)
    pl["run_dir"] = os.path.join(cdir, "baton")
    case["plan"] = {k: pl[k] for k in ("mode", "burst", "sched", "boxes",
                                       "model", "lag", "trr", "pre_idle",
                                       "linger", "child", "create_step",
                                       "fmt", "shuffle", "fast_exit",
                                       "midread")}
    baton = bt.Baton(pl["run_dir"], pl["mode"], K=K_POLLS)
    plan_file = os.path.join(cdir, "plan.json")
    with open(plan_file, "w") as fh:
        json.dump(pl, fh)
    os.environ["VF_STUB_PLAN"] = plan_file
    system = System()
    system.config, system.vel_rev = start_cfg, start_rev
    path = Path(maxlen=maxlen)
    ens = {"ens_name": "007", "interfaces": (left, (left + right) / 2, right)}
    import infretis.classes.engines.enginebase as eb
    tap = bt.ReaderTap(baton, pl["midread"] if pl["mode"] == "baton" else 0)
    baton.install(rig.module(), [eb] if kind == "gromacs" else [])
    if bomb:
        engine.order_function = OrderBomb(engine.order_function, bomb)
    outcome, info, site = None, "", "?"
    try:
        success, _status = engine.propagate(path, ens, system, reverse=reverse)
        outcome = "returned"
    except bt.BatonHang as exc:
        outcome, info = "hang", str(exc)
    except bt.BatonWatchdog as exc:
        outcome, info = "watchdog", str(exc)
    except Exception as exc:
        outcome, info = "raised", f"{type(exc).__name__}: {exc}"[:300]
        site = _raise_site(exc)
    finally:
        try:
            rep = baton.process_report()
        finally:
            baton.uninstall()
            baton.cleanup()
            tap.close()
            os.environ.pop("VF_STUB_PLAN", None)
    out.res["n"] += 1
    out.ev(f"{kind}:{fam}:{outcome}")
    out.ev(f"{kind}:polls", baton.polls)
    out.ev(f"{kind}:mode-{pl['mode']}")
    traj_calls = [nf for nm, nf in tap.calls if "-vel-" not in nm]
    out.ev(f"{kind}:reader-polls", len(traj_calls))
    out.ev(f"{kind}:reader-polls-with>=2-frames",
           sum(1 for nf in traj_calls if nf >= 2))
    if pl["boxes"]:
        out.ev(f"{kind}:cases-with-varying-box")
    if any(abs(a - round(a)) > 1e-9 for a in pl["sched"]):
        out.ev(f"{kind}:cases-with-cut-inside-frame")
    case["outcome"] = outcome + (": " + info if info else "")
    case["polls"] = baton.polls
    if outcome == "watchdog":
        out.res["inconclusive"].append(f"{kind} case hit the harness "
                                       f"watchdog: {info} {case}")
        return None
    # (5) the external program is stopped -----------------------------------
    out.reach("process_stopped")
    if rep["running"]:
        out.viol(f"{kind}:program-still-running-after-propagate-{outcome}",
                 f"pids {rep['running']} alive after propagate {outcome} "
                 f"({info})", case)
    elif rep["survivors"]:
        out.viol(f"{kind}:process-group-member-survives-propagate-{outcome}",
                 f"processes {rep['survivors']} of the program's process "
                 f"group alive after propagate {outcome}", case)
    if tap.grown:
        out.ev(f"{kind}:file-grew-during-a-read", tap.grown)
    if bomb:
        out.ev(f"{kind}:order-function-raised-mid-run:{outcome}")
        fired = engine.order_function.calls >= bomb
        if not fired:
            out.ev(f"{kind}:order-raises:path-ended-before-the-failure")
        elif outcome != "raised" or "injected" not in info:
            out.viol(f"{kind}:injected-order-failure-not-propagated",
                     f"{outcome} {info}", case)
        out.res["sigs"].append(_sig(case) + f"|bomb{bomb}")
        return None
    # the program was started from the start phase point ---------------------
    tfile = os.path.join(pl["run_dir"], "truth.json")
    if os.path.isfile(tfile):
        out.reach("program_input")
        with open(tfile) as fh:
            seen = json.load(fh)
        probs = []
        if _maxdiff(seen["x0"], start["raw_x"]) > 1e-6:
            probs.append(f"positions {seen['x0']}")
        if _maxdiff(seen["v0"], v_run) > 1e-6:
            probs.append(f"velocities {seen['v0']} (expected {v_run})")
        if seen["nframes"] != nfr or seen["nsub"] != ctx["nsub"] or \
                abs(seen["dt"] - ctx["timestep"]) > 1e-12:
            probs.append(f"frames/subcycles/dt {seen['nframes']}/"
                         f"{seen['nsub']}/{seen['dt']}")
        if probs:
            out.viol(f"{kind}:program-started-from-wrong-state",
                     "; ".join(probs), case)
    # (6) failures raise ------------------------------------------------------
    if fault and fault["point"] != "early0":
        out.reach("failure_raises")
        out.ev(f"fault:{kind}:{fault['point']}:{fault['how']}"
               f"{fault.get('code', fault.get('sig'))}:{outcome}")
        how = pl["fault"]["how"]
        if outcome == "hang":
            where = fault["point"]
            if kind == "gromacs" and at != int(at):
                p = 8 if pl["trr"]["double"] else 4
                size = sl.trr_header_size(p == 8) + 21 * p
                off = min(size - 1, max(1, int(round((at - int(at)) * size))))
                where = ("inside-frame-data-after-header"
                         if off >= sl.trr_header_size(p == 8)
                         else "inside-frame-header")
            out.viol(f"{kind}:no-return-no-raise-within-K-polls:{where}",
                     f"program died ({pl['fault']}) and propagate neither "
                     f"returned nor raised within {K_POLLS} polls", case)
        elif outcome == "returned":
            last = float(path.phasepoints[-1].order[0]) if path.length else None
            if last is None or (left < last < right and path.length < maxlen):
                out.viol(f"{kind}:failure-returns-path:{how}",
                         f"program died ({pl['fault']}) before the stop frame "
                         f"{c} was complete; propagate returned success="
                         f"{success} with {path.length} frames, the last one "
                         f"(order {last!r}) inside ({left}, {right})", case)
            else:
                # complete by the engine's own account although the stop
                # frame was never written: the frame oracles find the cause
                out.ev(f"{kind}:fault-case-returned-a-path-complete-by-its-"
                       "stored-orders")
                judge_path(out, kind, engine, spec, case, path, success,
                           start, start_rev, reverse, left, right, maxlen,
                           truth, {"len": elen, "success": esucc},
                           [nf for nm, nf in tap.calls
                            if nm.endswith(".lammpstrj")],
                           tol_ind=1e-7 if kind == "cp2k" else 1e-9,
                           tol_first=1e-4 if kind == "gromacs" else 1e-6)
        out.res["sigs"].append(_sig(case))
        return None
    if outcome != "returned":
        if fam == "early0":
            out.ev(f"{kind}:early0:raised")
            return None
        out.viol(f"{kind}:propagate-raised-on-healthy-program:{site}"
                 if outcome == "raised" else
                 f"{kind}:no-return-within-K-polls-after-exit",
                 f"{outcome}: {info}", case)
        return None
    batches = [nf for nm, nf in tap.calls if nm.endswith(".lammpstrj")]
    expect = {"len": elen, "success": esucc}
    if fam == "early0":
        expect = None
        out.ev(f"{kind}:early0:returned-{path.length}-frames-success-{success}")
    res = judge_path(out, kind, engine, spec, case, path, success, start,
                     start_rev, reverse, left, right, maxlen, truth, expect,
                     batches, tol_ind=1e-7 if kind == "cp2k" else 1e-9,
                     short_ok=fam == "early0",
                     tol_first=1e-4 if kind == "gromacs" else 1e-6,
                     short_mech=f"{kind}:frames-on-disk-not-delivered-after-"
                     "clean-exit" if rep["returncodes"][-1:] == [0] else None)
    if path.length >= 2:
        out.res["sigs"].append(_sig(case))
    if len(out.res["samples"]) < 2 and path.length >= 3 and rng.random() < .3:
        out.res["samples"].append(dict(case, frames=path.length,
                                       success=bool(success)))
    if res is not None:
        res["path"], res["engine"], res["cdir"] = path, engine, cdir
    return res


def _sig(case):
    pl = case.get("plan", {})
    return "|".join(str(x) for x in (
        case["engine"], case["family"], case["order"]["class"],
        case["order"].get("periodic"), case["reverse"], case["start_vel_rev"],
        case["subcycles"], case["maxlen"], case["expect"], pl.get("mode"),
        pl.get("burst"), len(pl.get("sched") or []), bool(pl.get("boxes")),
        pl.get("lag"), pl.get("trr"), case.get("fault")))


def external_cases(out, job, scratch, rng):
    for kind in EXT:
        rig = ExtRig(kind, scratch, job["seed"] % 10007)
        # normal family -------------------------------------------------------
        for _ in range(job["normal"]):
            ctx = gen_context(rng, kind, "normal")
            spec = rng.choice(ORDERS3D)
            res = run_external(
                out, rig, rng, "normal", spec, ctx, rng.random() < 0.5,
                rng.random() < 0.3, rng.randint(3, 40),
                rng.choice(["right", "left", "right", "left", "maxlen",
                            "start_outside"]))
            _tidy(res)
        # retrace pairs -------------------------------------------------------
        for _ in range(job["retrace"]):
            ctx = gen_context(rng, kind, "retrace")
            spec = rng.choice(ORDERS3D)
            maxlen = rng.randint(6, 30)
            fwd = run_external(out, rig, rng, "retrace-fwd", spec, ctx, False,
                               False, maxlen, rng.choice(["right", "maxlen"]))
            if fwd is None or len(fwd["frames"]) < 3:
                _tidy(fwd)
                continue
            k = rng.randint(1, len(fwd["frames"]) - 1)
            pp = fwd["path"].phasepoints[k]
            bwd = run_external(out, rig, rng, "retrace-bwd", spec, ctx, True,
                               False, k + rng.randint(2, 6), "maxlen",
                               start_cfg=pp.config, label=f"from frame {k}")
            if bwd is not None:
                tol = 2e-4 if kind == "gromacs" else 2e-6
                judge_retrace(out, kind, {"engine": kind, "order": spec,
                                          "from_frame": k, "plan":
                                          ctx["plan"]["model"]},
                              fwd, bwd, k, tol)
            _tidy(fwd)
            _tidy(bwd)
        # fault grid ----------------------------------------------------------
        for gid in job["fault_ids"]:
            point, (how, code) = GRID[gid % len(GRID)]
            ctx = gen_context(rng, kind, "fault")
            ctx["plan"]["mode"] = "baton" if rng.random() < 0.85 else "free"
            fault = {"point": point, "how": how}
            fault["code" if how == "exit" else "sig"] = code
            spec = rng.choice(ORDERS3D)
            late = point == "in-data-late"
            run_external(out, rig, rng, "fault", spec, ctx,
                         rng.random() < 0.5, False,
                         rng.randint(14, 30) if late else rng.randint(5, 24),
                         rng.choice(["right", "left", "maxlen"]), fault=fault)
        for _ in range(job["early0"]):     # order function raises mid-run
            ctx = gen_context(rng, kind, "fault")
            ctx["plan"].update(mode="baton", burst=[1], midread=0)
            run_external(out, rig, rng, "order-raises", rng.choice(ORDERS3D),
                         ctx, rng.random() < 0.5, False, rng.randint(20, 30),
                         "maxlen", bomb=rng.randint(3, 8))
        for _ in range(job["early0"]):
            ctx = gen_context(rng, kind, "fault")
            res = run_external(out, rig, rng, "early0", rng.choice(ORDERS3D),
                               ctx, rng.random() < 0.5, False,
                               rng.randint(6, 20), "maxlen",
                               fault={"point": "early0", "how": "exit",
                                      "code": 0})
            _tidy(res)
        shutil.rmtree(rig.root, ignore_errors=True)


def _tidy(res):
    if res and res.get("cdir"):
        shutil.rmtree(res["cdir"], ignore_errors=True)


def work(job, scratch):
    import logging
    logging.disable(logging.CRITICAL)
    rng = random.Random(job["seed"])
    out = Out()
    external_cases(out, job, scratch, rng)
    lattice_cases(out, job, scratch, rng)
    turtle_cases(out, job, scratch, rng)
    ase_cases(out, job, scratch, rng)
    return out.res
