"""C13 - on-the-fly trajectory readers never return a torn frame."""
import importlib.util  # noqa: F401
import os
import random
import struct

PROPERTY = "C13"
LEVEL = "fault_enumeration"
RULE = ("independent writers produce LAMMPS dumps (2-6 atoms, random id "
        "order, 2/3 box columns, %g / fixed / scientific numbers), CP2K xyz "
        "trajectories and GROMACS TRR files (big/little endian x "
        "single/double, with/without velocities and forces); the file is "
        "grown according to a cut schedule and the real reader is polled "
        "after every growth (xyz_reader / lammpstrj_reader through "
        "ReadAndProcessOnTheFly, the TRR path through the real "
        "GromacsRunner.get_gromacs_frames with a stub process object and the "
        "module's sleep as the writer's clock). Exhaustive: every single cut "
        "point of small files, and every pair of cut points of tiny files; "
        "random: sequences of 2-12 cuts incl. one-byte steps across line "
        "ends. Oracle: at every moment the concatenated output is a prefix of "
        "the written frames, with exactly the written values, and contains "
        "only frames whose bytes are on disk (the last newline excepted); no "
        "exception; after completion and a bounded number of extra polls "
        "nothing is missing. Non-trivial = a schedule with a cut strictly "
        "inside a frame; distinct = distinct (file, cut schedule).")
ASSUMPTIONS = [
    "delivery may lag (the TRR reader waits for 1000 bytes before the first "
    "header); tearing, duplication, loss and exceptions are violations",
    "a frame complete except for its final newline may or may not be "
    "delivered",
    "hang detection is logical: a cap on the number of sleep() calls made "
    "after the file is complete",
]
MUST_REACH = ["lammps_reader", "xyz_reader", "trr_reader"]
JOB_TIMEOUT = 1700


# --------------------------------------------------------------------------
# independent writers
# --------------------------------------------------------------------------
def _num(rng, style):
    v = rng.choice([rng.uniform(-10, 10), rng.uniform(-1e-3, 1e-3),
                    rng.uniform(-1e4, 1e4), float(rng.randint(-5, 5))])
    if style == "g":
        return "%g" % v
    if style == "f":
        return "%.6f" % v
    if style == "e":
        return "%.8e" % v
    return "%.10f" % v


def make_lammps(rng):
    n = rng.randint(2, 6)
    nframes = rng.randint(2, 4)
    style = rng.choice(["g", "f", "e"])
    cols = rng.choice([2, 3])
    text, ends, frames = "", [], []
    for t in range(nframes):
        ids = list(range(1, n + 1))
        rng.shuffle(ids)
        box = [[_num(rng, style) for _ in range(cols)] for _ in range(3)]
        rows = {i: [_num(rng, style) for _ in range(6)] for i in ids}
        text += "ITEM: TIMESTEP\n%d\nITEM: NUMBER OF ATOMS\n%d\n" % (
            t * rng.choice([1, 10]), n)
        text += "ITEM: BOX BOUNDS " + ("xy xz yz " if cols == 3 else "") + \
            "pp pp pp\n"
        for b in box:
            text += " ".join(b) + "\n"
        text += "ITEM: ATOMS id type x y z vx vy vz id\n"
        for i in ids:
            text += f"{i} 1 " + " ".join(rows[i]) + f" {i}\n"
        ends.append(len(text))
        frames.append({
            "coords": [[float(x) for x in rows[i]] for i in range(1, n + 1)],
            "box": [[float(x) for x in b] + [0.0] * (3 - cols) for b in box]})
    return text.encode(), ends, frames


def make_xyz(rng):
    n = rng.randint(1, 5)
    nframes = rng.randint(2, 4)
    text, ends, frames = "", [], []
    for t in range(nframes):
        text += "%8d\n" % n
        text += " i = %8d, time = %12.3f, E = %20.10f\n" % (
            t, 0.5 * t, rng.uniform(-5, 5))
        rows = []
        for a in range(n):
            vals = [_num(rng, "F") for _ in range(3)]
            rows.append([float(v) for v in vals])
            text += "%3s %20s %20s %20s\n" % (rng.choice(["H", "O", "Ar"]),
                                             *vals)
        ends.append(len(text))
        frames.append({"coords": rows})
    return text.encode(), ends, frames


def make_trr(rng):
    endian = rng.choice([">", "<"])
    double = rng.random() < 0.5
    n = rng.randint(1, 4)
    nframes = rng.randint(2, 4) if rng.random() < 0.7 else rng.randint(5, 14)
    has_v = rng.random() < 0.7
    has_f = rng.random() < 0.3
    has_box = rng.random() < 0.9
    p = 8 if double else 4
    r = "d" if double else "f"
    blob, ends, frames = b"", [], []
    # velocities / forces only in every k-th frame (nstvout, nstfout a
    # multiple of nstxout): frames of one file then differ in size
    mixed = rng.random() < 0.35
    vstep = rng.choice([1, 2, 3]) if mixed else 1
    fstep = rng.choice([1, 2, 3]) if mixed else 1
    v_all, f_all = has_v, has_f
    if mixed:
        v_all = f_all = True
    for t in range(nframes):
        has_v = v_all and t % vstep == 0
        has_f = f_all and t % fstep == (fstep - 1 if mixed else 0)
        box = [rng.uniform(1, 5) if i % 4 == 0 else 0.0 for i in range(9)]
        x = [rng.uniform(-5, 5) for _ in range(3 * n)]
        v = [rng.uniform(-5, 5) for _ in range(3 * n)]
        f = [rng.uniform(-50, 50) for _ in range(3 * n)]
        sizes = [0, 0, 9 * p if has_box else 0, 0, 0, 0, 0, 3 * n * p,
                 3 * n * p if has_v else 0, 3 * n * p if has_f else 0,
                 n, t, 0]
        head = struct.pack(endian + "i", 1993)
        head += struct.pack(endian + "2i", 13, 12)
        head += b"GMX_trn_file"
        head += struct.pack(endian + "13i", *sizes)
        head += struct.pack(endian + "2" + r, 0.002 * t, 0.0)
        data = b""
        if has_box:
            data += struct.pack(endian + "9" + r, *box)
        data += struct.pack(endian + f"{3 * n}" + r, *x)
        if has_v:
            data += struct.pack(endian + f"{3 * n}" + r, *v)
        if has_f:
            data += struct.pack(endian + f"{3 * n}" + r, *f)
        blob += head + data

        def rt(vals):
            return list(struct.unpack(endian + f"{len(vals)}" + r,
                                      struct.pack(endian + f"{len(vals)}" + r,
                                                  *vals)))
        ends.append(len(blob))
        frames.append({"x": rt(x), "v": rt(v) if has_v else None,
                       "box": rt(box) if has_box else None})
    return blob, ends, frames, {"endian": endian, "double": double, "n": n,
                                "has_v": v_all, "has_f": f_all,
                                "has_box": has_box, "mixed_layout": mixed,
                                "vstep": vstep, "fstep": fstep}


# --------------------------------------------------------------------------
# drivers
# --------------------------------------------------------------------------
class Hang(Exception):
    pass


def drive_text(kind, blob, cuts, path):
    """Grow the file along cuts, poll the real reader after each growth.
    Returns list of (bytes_on_disk, frames_returned_by_this_poll) or raises."""
    from infretis.classes.engines.engineparts import (
        ReadAndProcessOnTheFly, lammpstrj_reader, xyz_reader)
    fn = lammpstrj_reader if kind == "lammps" else xyz_reader
    if os.path.exists(path):
        os.remove(path)
    reader = ReadAndProcessOnTheFly(path, fn)
    out = []
    pos = 0
    sched = list(cuts) + [len(blob)] + [len(blob)] * 3  # extra polls
    with open(path, "wb") as f:
        for c in sched:
            if c > pos:
                f.write(blob[pos:c])
                f.flush()
                pos = c
            res = reader.read_and_process_content()
            if kind == "lammps":
                tr, bx = res if res != [] else ([], [])
                fr = [{"coords": [list(map(float, r)) for r in t],
                       "box": [list(map(float, r)) for r in b]}
                      for t, b in zip(tr, bx)]
                if len(tr) != len(bx):
                    fr.append({"mismatch": (len(tr), len(bx))})
            else:
                fr = [{"coords": [list(map(float, r)) for r in t]}
                      for t in res]
            out.append((pos, fr))
    return out


def drive_trr(blob, cuts, path, meta, mode=("sleep", False)):
    """mode = (when the writer's clock ticks, exit together with the last
    write).  The writer is an independent process: it may write, and exit,
    between ANY two operations of the reader - while the reader sleeps
    ('sleep'), or right when the reader polls it ('poll': the tick happens
    inside poll(), before the answer), or both."""
    import infretis.classes.engines.gromacs as g
    tick_on, exit_with_last = mode

    class Proc:
        def __init__(self):
            self.rc = None
            self.returncode = None
            self.stdin = self.stdout = self.stderr = None

        def poll(self):
            if tick_on in ("poll", "both") and state.get("armed"):
                advance()
            return self.rc

        def wait(self, timeout=None):
            return 0
    if os.path.exists(path):
        os.remove(path)
    sched = list(cuts) + [len(blob)]
    state = {"pos": 0, "i": 0, "sleeps_after_done": 0}
    fh = open(path, "wb")

    def advance():
        if state["i"] < len(sched):
            c = sched[state["i"]]
            state["i"] += 1
            if c > state["pos"]:
                fh.write(blob[state["pos"]:c])
                fh.flush()
                state["pos"] = c
            if exit_with_last and state["pos"] == len(blob):
                proc.rc = 0
                proc.returncode = 0
            return
        # file complete: the program exits after a few more polls
        state["sleeps_after_done"] += 1
        if state["sleeps_after_done"] == 3:
            proc.rc = 0
            proc.returncode = 0
        if state["sleeps_after_done"] > (40 if tick_on == "sleep" else 200):
            raise Hang("reader keeps sleeping although the file is complete "
                       "and the program has exited")

    proc = Proc()
    advance()            # first chunk exists before the reader starts
    runner = g.GromacsRunner([], path, path, os.path.dirname(path))
    runner.running = proc
    runner.fileh = open(path, "rb")
    runner.ino = os.fstat(runner.fileh.fileno()).st_ino
    runner.stop_read = False
    runner.bytes_read = 0
    old_sleep = g.sleep
    g.sleep = (lambda s: advance()) if tick_on in ("sleep", "both") else \
        (lambda s: None)
    state["armed"] = True
    out = []
    try:
        it = runner.get_gromacs_frames()
        n = 0
        for data in it:
            out.append((state["pos"], [{
                "x": [float(v) for v in data["x"].flatten()]
                if "x" in data else None,
                "v": [float(v) for v in data["v"].flatten()]
                if "v" in data else None,
                "box": [float(v) for v in data["box"].flatten()]
                if "box" in data else None}]))
            n += 1
            if n > 1000:
                raise Hang("more than 1000 frames yielded")
    finally:
        g.sleep = old_sleep
        try:
            runner.fileh.close()
        except Exception:
            pass
        runner.running = None
        fh.close()
    return out


TRR_MODES = [("sleep", False), ("poll", True), ("both", False),
             ("sleep", True), ("poll", False), ("both", True)]


def judge(kind, log, ends, frames):
    """Prefix oracle. Returns (mech, text) or None."""
    got = 0
    for pos, frs in log:
        for fr in frs:
            if "mismatch" in fr:
                return ("frames-and-boxes-out-of-step",
                        f"reader returned {fr['mismatch']} frames/boxes")
            if got >= len(frames):
                return ("extra-frame", f"frame #{got} returned but only "
                        f"{len(frames)} were written (duplicate?)")
            want = frames[got]
            on_disk = pos >= ends[got] - 1
            for key in want:
                if want[key] is None:
                    continue
                if fr.get(key) != want[key]:
                    dup = any(fr.get(key) == frames[j][key]
                              for j in range(got))
                    skip = any(fr.get(key) == frames[j][key]
                               for j in range(got + 1, len(frames)))
                    kindv = ("duplicate-frame" if dup else "skipped-frame"
                             if skip else "wrong-values" if on_disk else
                             "torn-frame")
                    return (kindv, f"output frame #{got} field {key}: got "
                            f"{str(fr.get(key))[:120]} written "
                            f"{str(want[key])[:120]} ({pos} of "
                            f"{ends[-1]} bytes on disk, frame ends at "
                            f"{ends[got]})")
            if not on_disk:
                return ("frame-before-complete", f"frame #{got} (ends at "
                        f"byte {ends[got]}) returned with {pos} bytes on "
                        "disk")
            got += 1
    if got != len(frames):
        return ("missing-frame", f"{got} of {len(frames)} frames delivered "
                "after the file was complete and extra polls")
    return None


def plan(tier, seed):
    rng = random.Random(f"C13-{seed}")
    jobs = []
    nj = 8 if tier == "quick" else 60
    for kind in ("lammps", "xyz", "trr"):
        for j in range(nj):
            jobs.append({"kind": kind, "seed": rng.randrange(2 ** 31),
                         "files": 3 if tier == "quick" else 8,
                         "random_schedules": 120 if tier == "quick" else 500,
                         "pairs": j < 2, "hashseed": 0})
    return jobs


def work(job, scratch):
    rng = random.Random(job["seed"])
    kind = job["kind"]
    res = {"n": 0, "sigs": [], "events": {}, "violations": [], "samples": [],
           "reached": {}, "notes": []}
    path = os.path.join(scratch, "traj.bin")

    def ev(k, n=1):
        res["events"][k] = res["events"].get(k, 0) + n
    seen_mech = {}
    for fi in range(job["files"]):
        meta = None
        if kind == "lammps":
            blob, ends, frames = make_lammps(rng)
        elif kind == "xyz":
            blob, ends, frames = make_xyz(rng)
        else:
            blob, ends, frames, meta = make_trr(rng)
        L = len(blob)
        schedules = [[c] for c in range(0, L + 1)]          # every single cut
        if job["pairs"] and fi == 0:
            # every pair of cuts on a prefix of two frames
            lim = min(L, ends[1] + 3)
            step = 1 if lim < 260 else 2
            step = max(step, lim // 120)
            schedules += [[a, b] for a in range(0, lim, step)
                          for b in range(a + 1, lim + 1, step)]
        for _ in range(job["random_schedules"]):
            k = rng.randint(2, 12)
            cs = sorted(rng.sample(range(0, L + 1), min(k, L)))
            if rng.random() < 0.4:      # one-byte steps across a line end
                e = rng.choice(ends)
                cs = sorted(set(cs + [max(0, e - 2), e - 1, e,
                                      min(L, e + 1)]))
            schedules.append(cs)
        ev(f"{kind}_files")
        ev(f"{kind}_bytes", L)
        for cuts in schedules:
            res["n"] += 1
            res["reached"][f"{'lammps' if kind == 'lammps' else kind}_reader"] = \
                res["reached"].get(f"{kind}_reader", 0) + 1
            inside = any(c not in ends and 0 < c < L for c in cuts)
            try:
                if kind == "trr":
                    mode = TRR_MODES[res["n"] % len(TRR_MODES)]
                    ev("trr_mode_%s%s" % (mode[0], "_exit_with_last_write"
                                          if mode[1] else ""))
                    log = drive_trr(blob, cuts, path, meta, mode)
                else:
                    log = drive_text(kind, blob, cuts, path)
                verdict = judge(kind, log, ends, frames)
            except Hang as exc:
                verdict = ("reader-hangs", str(exc))
            except BaseException as exc:
                verdict = ("reader-raised", f"{type(exc).__name__}: {exc}")
            ev(f"{kind}_schedules")
            if inside:
                res["sigs"].append(f"{kind}-{job['seed']}-{fi}-{cuts}")
            if verdict:
                mech = f"{kind}:{verdict[0]}"
                seen_mech[mech] = seen_mech.get(mech, 0) + 1
                if seen_mech[mech] <= 3:
                    where = [(c, next((i for i, e in enumerate(ends)
                                       if c <= e), None)) for c in cuts]
                    res["violations"].append({
                        "mech": mech, "what": verdict[1], "cuts": cuts,
                        "cut_in_frame": where, "frame_ends": ends,
                        "file_len": L, "meta": meta,
                        "file_head": blob[:400].decode("latin1")
                        if kind != "trr" else None})
        if len(res["samples"]) < 1:
            res["samples"].append({"kind": kind, "file_len": L,
                                   "frame_ends": ends, "meta": meta,
                                   "n_schedules": len(schedules),
                                   "example_schedule": schedules[-1]})
    for m, c in seen_mech.items():
        ev("violations_" + m, c)
    return res
