"""C14 - stored paths read back unchanged; live paths never lose files."""
import importlib.util  # noqa: F401
import os
import random
import shutil

from vf.checks import _schedfam as F

PROPERTY = "C14"
LEVEL = "exploration"
RULE = ("(a) round trip load_path(PathStorage.output(path)) on generated "
        "paths: 1-6 trajectory files, frames shared between files and indices "
        "in any order, reversed frames, index None, 1-3 order columns with "
        "magnitudes up to 1e4 and negative values, energies present / partly "
        "missing / absent; compared: length, (basename, index, velocity "
        "flag) per frame, orders to the six decimals written, energies where "
        "the stored path had them, every referenced file exists under "
        "load/<n>/accepted. (b) DeleteMonitor (sys.addaudithook on "
        "os.remove/os.rmdir/os.rename) rides on scheduler-rig histories with "
        "delete_old, delete_old_all, restarts and kills: a removal under "
        "load/ must not hit a file of a live path, the directory of an active "
        "path of the restart file on disk, an initial path, a path that was "
        "not replaced in this run, or a path replaced fewer than the "
        "configured lag ago. Non-trivial round trip = >=2 files or a reversed "
        "frame; non-trivial history = >=1 removal observed.")
ASSUMPTIONS = [
    "a frame index of None and of 0 denote the same single-frame reference",
    "the configured lag is the one the program implements: a replaced path is "
    "deleted when n-1 (n = ensembles+1) later replacements are queued",
]
MUST_REACH = ["companion_kept", "roundtrip", "delete_watch"]
JOB_TIMEOUT = 1500


def plan(tier, seed):
    rng = random.Random(f"C14-{seed}")
    jobs = []
    for j in range(16 if tier == "quick" else 200):
        jobs.append({"kind": "roundtrip", "seed": rng.randrange(2 ** 31),
                     "count": 130 if tier == "quick" else 500, "hashseed": 0,
                     "long": j == 0})
    for j in range(20 if tier == "quick" else 400):
        specs = []
        for _ in range(5):
            s = F.gen_spec(rng, tier, steps=(60, 180))
            s["delete_old"] = True
            s["delete_old_all"] = rng.random() < 0.5
            s["maxlength"] = 2000
            # the restart file on disk is what a crash leaves: with other
            # print frequencies it must still never list a deleted path
            s["screen"] = rng.choice([1, 1, 0, 2, 3, 5])
            specs.append(s)
        jobs.append({"kind": "rig", "hashseed": rng.randrange(1000),
                     "specs": specs})
    return jobs


def _mons(spec, cdir):
    from vf.monitors import DeleteMonitor
    return [DeleteMonitor(cdir, spec["n_intf"])]


def _nontrivial(rig, spec, mons):
    return rig.events.get("removals_under_load", 0) >= 1


def _roundtrip(job, scratch):
    from infretis.classes.formatter import PathStorage
    from infretis.classes.path import Path, load_path
    from infretis.classes.system import System
    rng = random.Random(job["seed"])
    res = {"n": 0, "sigs": [], "events": {}, "violations": [], "samples": [],
           "reached": {}, "notes": []}

    def ev(k, n=1):
        res["events"][k] = res["events"].get(k, 0) + n
    store = PathStorage()
    for c in range(job["count"]):
        long_path = job.get("long") and c == 0
        base = os.path.join(scratch, f"rt{c}")
        src = os.path.join(base, "worker")
        os.makedirs(src)
        nfiles = rng.randint(1, 6)
        files = []
        for i in range(nfiles):
            fn = os.path.join(src, f"{rng.choice(['000','001','007'])}_"
                                   f"{rng.randrange(99999)}_{i}_traj"
                                   f"{rng.choice('BF')}.{rng.choice(['xyz','trr','lammpstrj'])}")
            with open(fn, "w") as f:
                f.write(f"content {i} {rng.random()}\n")
            files.append(fn)
        # output.keep_traj_fnames: companion files (same stem, listed
        # extension) next to a trajectory file are archived with it
        keep = rng.choice([[], [], [".wfn"], [".wfn", ".restart"]])
        store.keep_traj_fnames = keep
        companions = {}
        for fn in files:
            for ext in (keep + [".other"]):
                if rng.random() < 0.5:
                    cf = os.path.splitext(fn)[0] + ext
                    with open(cf, "w") as f:
                        f.write(f"companion {ext} of {os.path.basename(fn)}\n")
                    companions[cf] = (ext, fn)
        n = rng.randint(1, 40)
        if long_path:
            # longer than Path's default maxlen (100 000): tis_set.maxlength
            # may be larger than that
            n = 100000 + rng.randint(1, 60)
        ncv = rng.randint(1, 3)
        emode = rng.choice(["all", "none", "partial", "all"])
        path = Path(maxlen=1000 if not long_path else 200000)
        if long_path:
            ev("very_long_paths")
        spec = []
        for k in range(n):
            s = System()
            scale = rng.choice([1, 1, 10, 1e3, 1e4])
            s.order = [round(rng.uniform(-scale, scale), rng.choice([2, 6, 9,
                                                                    12]))
                       if rng.random() > 0.05 else rng.choice([0.0, 1.0, -1.0])
                       for _ in range(ncv)]
            fi = rng.randrange(nfiles)
            idx = rng.choice([None, 0]) if rng.random() < 0.1 else \
                rng.randrange(0, 500)
            s.config = (files[fi], idx)
            s.vel_rev = rng.random() < 0.4
            if emode == "all" or (emode == "partial" and rng.random() < 0.5):
                s.vpot = round(rng.uniform(-1e4, 1e4), 8)
                s.ekin = round(rng.uniform(0, 1e4), 8)
                if rng.random() < 0.1:     # special values
                    s.vpot = rng.choice([0.0, -0.0, 1.0, -1e-7])
                if rng.random() < 0.1:
                    s.ekin = rng.choice([0.0, 1e-7, 1.0])
            path.phasepoints.append(s)
            spec.append((list(s.order), os.path.basename(files[fi]), idx,
                         s.vel_rev, s.vpot, s.ekin))
        pn = rng.randrange(3, 5000)
        path.path_number = pn
        path.status = "ACC"
        path.generated = ("sh", 0.1, 3, 4)
        load = os.path.join(base, "load")
        case = {"n_frames": n, "n_files": nfiles, "ncv": ncv,
                "energies": emode, "path_number": pn,
                "keep_traj_fnames": keep,
                "companions": sorted(os.path.basename(c) for c in companions)}
        try:
            stored = store.output(rng.randrange(1, 10 ** 6),
                                  {"path": path, "dir": load})
            back = load_path(os.path.join(load, str(pn)))
        except BaseException as exc:
            res["violations"].append(dict(
                case, mech="roundtrip-raised",
                what=f"{type(exc).__name__}: {exc}", frames=spec[:5]))
            continue
        res["n"] += 1
        res["reached"]["roundtrip"] = res["reached"].get("roundtrip", 0) + 1
        ev("roundtrips")
        ev("energies_" + emode)
        bad = None
        if back.length != n:
            bad = ("roundtrip-length", f"loaded {back.length} frames, stored "
                   f"{n}")
        else:
            acc = os.path.realpath(os.path.join(load, str(pn), "accepted"))
            for k, (fr, sp) in enumerate(zip(back.phasepoints, spec)):
                o, bn, idx, rev, vp, ek = sp
                fn, i2 = fr.config
                if os.path.basename(fn) != bn or \
                        (i2 or 0) != (idx or 0) or bool(fr.vel_rev) != rev:
                    bad = ("roundtrip-frame-reference",
                           f"frame {k}: stored ({bn},{idx},{rev}) loaded "
                           f"({os.path.basename(fn)},{i2},{fr.vel_rev})")
                    break
                if os.path.dirname(os.path.realpath(fn)) != acc or \
                        not os.path.isfile(fn):
                    bad = ("roundtrip-file-missing-or-misplaced",
                           f"frame {k} -> {fn}")
                    break
                if len(fr.order) != len(o) or any(
                        not (abs(float(a) - b) <= 0.5e-6 + 1e-11 *
                             max(1, abs(b)))
                        for a, b in zip(fr.order, o)):
                    bad = ("roundtrip-order", f"frame {k}: stored {o} loaded "
                           f"{list(fr.order)}")
                    break
                if vp is not None and (fr.vpot is None or fr.ekin is None or
                                       not (abs(float(fr.vpot) - vp) <= 0.5e-6
                                            + 1e-11 * max(1, abs(vp))) or
                                       not (abs(float(fr.ekin) - ek) <= 0.5e-6
                                            + 1e-11 * max(1, abs(ek)))):
                    bad = ("roundtrip-energy", f"frame {k}: stored ({vp},"
                           f"{ek}) loaded ({fr.vpot},{fr.ekin})")
                    break
            # the path returned by output() must point at the stored files
            for k, (fr, sp) in enumerate(zip(stored.phasepoints, spec)):
                if not os.path.isfile(fr.config[0]) or \
                        os.path.basename(fr.config[0]) != sp[1]:
                    bad = ("stored-path-dangling", f"frame {k} of the path "
                           f"returned by output() -> {fr.config[0]}")
                    break
        if not bad and keep:
            used = {sp[1] for sp in spec}
            acc = os.path.join(load, str(pn), "accepted")
            for cf, (ext, fn) in companions.items():
                if ext not in keep or os.path.basename(fn) not in used:
                    continue
                res["reached"]["companion_kept"] = \
                    res["reached"].get("companion_kept", 0) + 1
                ev("companion_files_expected_in_archive")
                tgt = os.path.join(acc, os.path.basename(cf))
                want = f"companion {ext} of {os.path.basename(fn)}\n"
                if not os.path.isfile(tgt) or open(tgt).read() != want:
                    bad = ("companion-file-not-kept",
                           f"{os.path.basename(cf)} (extension listed in "
                           "keep_traj_fnames) is not in accepted/ with its "
                           "content")
                    break
        if bad:
            res["violations"].append(dict(case, mech=bad[0], what=bad[1],
                                          frames=spec[:6]))
        if nfiles >= 2 or any(s[3] for s in spec):
            res["sigs"].append(f"rt-{n}-{nfiles}-{ncv}-{emode}-{pn}-"
                               f"{hash(str(spec)) & 0xffffff}")
        if len(res["samples"]) < 1:
            res["samples"].append(dict(case, frames=spec[:3]))
        shutil.rmtree(base, ignore_errors=True)
    return res


def work(job, scratch):
    if job["kind"] == "roundtrip":
        return _roundtrip(job, scratch)
    return F.generic_work(job, scratch, _mons, _nontrivial)
