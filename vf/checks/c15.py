"""C15 - path algebra: paste, reverse, copy and classification are consistent.

Direct drive of the real ``infretis.classes.path.Path`` / ``paste_paths`` /
``infretis.classes.system.System``.  Every frame carries a unique label
(config = (tag, time)), so "which frame ended up where" is decided on labels,
never on the code under test.  The oracles are the laws of the property text,
written on plain Python lists.
"""
import importlib.util  # noqa: F401
import itertools
import os
import random

PROPERTY = "C15"
LEVEL = "exploration"
RULE = ("Four families, each random (seeded) plus an exhaustive small grid. "
        "PASTE: backward segment of nb frames (times T0, T0-1, ..), forward "
        "segment of nf frames (times T0.. if it shares the first point, else "
        "T0+1..), overlap flag, limit = explicit maxlen (0..nb+nf+2, biased to "
        "nb-1, nb, nb+1, total-1, total, total+1) or None (limit taken from "
        "the segments' own maxlen, equal or unequal); laws: length = "
        "min(limit, nb+nf-shared), first frame = last backward frame, frame "
        "labels = reversed(back)+forward[shared:], times increase by 1. "
        "REVERSE: n frames, random velocity flags, rev_v True/False, order "
        "function None / velocity independent / velocity dependent; laws "
        "(evaluated against a snapshot taken before the call AND against the "
        "live source path): frame i = source frame n-1-i, flag flipped (kept "
        "if rev_v=False), order recomputed only for a velocity dependent "
        "function, reverse(reverse(p)) has the frames of p. COPY: Path.copy, "
        "System.copy and `+=`: same frames in the same order (truncated at "
        "maxlen for +=), then EVERY field of EVERY copied frame is re-assigned "
        "and the source frames must be unchanged. CLASSIFY: order sequences "
        "on a small integer grid (also half-integers, negative, scaled) so "
        "that values EQUAL to interfaces occur all the time, sorted interface "
        "triples with ties; laws: ordermin/ordermax = (min/max value, an index "
        "holding it), start/end = L iff first/last <= left, R iff >= right, "
        "else ?/None (either L or R accepted only when left == right == "
        "value), crossed iff some frame < interface and some frame >= "
        "interface (i.e. min < interface <= max), middle = M iff the 2nd "
        "interface is crossed; one- and two-argument forms. DERIVED: after "
        "every paste / reverse / copy (and a copy extended by append() or by "
        "assigning a longer frame list, as tis.extender does), with the "
        "derived quantities of the source paths read beforehand in half of "
        "the cases, the extremes, crossings and end classifications of the "
        "RESULT must agree with a direct scan of the frames it holds. "
        "Non-trivial: "
        "paste with both segments non-empty; reverse/copy with >= 2 frames; "
        "classification of a non-constant sequence. Distinct: paste (nb, nf, "
        "overlap, limit kind, limit-nb, limit-total clipped); reverse (n, "
        "flag pattern, rev_v, function kind); copy (kind, n, limit relation); "
        "classification: the pattern of </=/> between (first, last, min, max) "
        "and the three interfaces plus the ties inside the triple.")
ASSUMPTIONS = [
    "segments of at most 12 frames (quick) / 16 frames (thorough grid 6-8): "
    "the code is length-generic, no branch depends on larger sizes",
    "with overlap=True both segments are non-empty (there is no shared point "
    "otherwise; the property does not say what happens then) - such calls "
    "are made, must not raise, and are counted, but no length law is applied",
    "a maxlen of None on only one of two pasted segments is outside the "
    "property (max(None, int) raises TypeError there); probed and counted, "
    "never reported",
    "copy independence is demanded for re-ASSIGNED fields only (System.copy "
    "is shallow by design; in-place mutation of a shared list is not covered "
    "by the property)",
    "finite order parameters (no NaN)",
]
MUST_REACH = ["paste_length", "paste_first_frame", "paste_frames",
              "paste_time_order", "reverse_order", "reverse_flags",
              "reverse_twice", "copy_frames", "copy_independence",
              "system_copy_independence", "iadd_frames", "iadd_independence",
              "extremes", "start_point", "end_point", "crossing", "middle",
              "derived_after_operation"]
JOB_TIMEOUT = 1500
FIELDS = ("config", "order", "pos", "vel", "vel_rev", "ekin", "vpot", "box",
          "temperature")


def plan(tier, seed):
    rng = random.Random(f"C15-{seed}")
    quick = tier == "quick"
    jobs = []
    nrand, count = (16, 12000) if quick else (80, 62000)
    for _ in range(nrand):
        jobs.append({"kind": "rand", "seed": rng.randrange(2 ** 31),
                     "count": count, "nmax": 12,
                     "hashseed": rng.randrange(100)})
    nb = 5 if quick else 8
    for ov in (0, 1):
        jobs.append({"kind": "exh_paste", "nmax": nb, "overlap": ov,
                     "seed": rng.randrange(2 ** 31), "hashseed": 0})
    jobs.append({"kind": "exh_rev", "nmax": 6 if quick else 10,
                 "seed": rng.randrange(2 ** 31), "hashseed": 0})
    lmax = 4 if quick else 6
    for first in range(5):
        jobs.append({"kind": "exh_class", "first": first, "lmax": lmax,
                     "seed": rng.randrange(2 ** 31), "hashseed": 0})
    return jobs


# ---------------------------------------------------------------- helpers
class _Rec:
    def __init__(self):
        self.v, self.ev, self.reached, self.sigs = [], {}, {}, set()
        self.samples, self.n, self.per_mech = [], 0, {}

    def hit(self, key, k=1):
        self.ev[key] = self.ev.get(key, 0) + k

    def reach(self, key):
        self.reached[key] = self.reached.get(key, 0) + 1

    def bad(self, mech, what, case):
        self.hit("violation_" + mech)
        c = self.per_mech.get(mech, 0)
        self.per_mech[mech] = c + 1
        if c < 3:
            self.v.append({"mech": mech, "what": what, "case": case})


class _OrderFn:
    """Stand-in order parameter: order = f(label, flag), cheap and exact."""

    def __init__(self, veldep):
        self.velocity_dependent = veldep
        self.calls = 0

    def calculate(self, system):
        self.calls += 1
        return _calc(system.config, system.vel_rev)


def _calc(config, flag):
    return [float(config[1]) * (-1.0 if flag else 1.0), 7.0]


def _frame(S, tag, t, order, flag, arr):
    s = S()
    s.config = (tag, t)
    s.order = list(order)
    s.vel_rev = flag
    s.pos = arr
    s.vel = arr
    s.ekin = 0.5 * t
    s.vpot = -1.0 * t
    return s


def _snap(s):
    return (s.config, tuple(s.order), s.vel_rev, s.ekin, s.vpot,
            id(s.pos), id(s.vel), id(s.box), id(s.temperature))


def _lab(s):
    """JSON-able short label of a frame (for witnesses)."""
    return [s.config[0], s.config[1], list(s.order), bool(s.vel_rev)]


def _mk_path(P, S, maxlen, frames, arr, t_origin=0):
    """frames: list of (tag, t, order, flag)."""
    p = P(maxlen=maxlen, time_origin=t_origin)
    p.phasepoints = [_frame(S, tg, t, o, f, arr) for tg, t, o, f in frames]
    return p


def _cmp(a, b):
    return "<" if a < b else ("=" if a == b else ">")


# ------------------------------------------------------------------ PASTE
def _touch(path):
    """Read every derived quantity once (fills whatever a path caches)."""
    if path.length == 0:
        return
    try:
        path.ordermin, path.ordermax
        path.check_interfaces([1.0, 2.0, 3.0])
    except BaseException:
        pass


def _derived(rec, path, case, where):
    """Classification of a path that came out of an operation must agree
    with a direct scan of the frames it holds NOW (a derived quantity
    remembered from before the operation is a wrong answer)."""
    seq = [float(x.order[0]) for x in path.phasepoints]
    if not seq:
        return
    lo, hi = min(seq), max(seq)
    mid = (lo + hi) / 2
    triple = sorted({lo, mid, hi}) if lo != hi else [lo]
    triple = (triple * 3)[:3] if len(triple) < 3 else triple
    triple = sorted(triple)
    rec.reach("derived_after_operation")
    try:
        omin, omax = path.ordermin, path.ordermax
        start, end, middle, cross = path.check_interfaces(list(triple))
    except BaseException as exc:
        rec.bad("derived-raised", f"{where}: classification raised "
                f"{type(exc).__name__}: {exc}", case)
        return
    want_cross = [lo < x <= hi for x in triple]
    okst = ["?" if x is None else x
            for x in _side(seq[0], triple[0], triple[2])]
    oken = _side(seq[-1], triple[0], triple[2])
    wrong = []
    if omin[0] != lo or omax[0] != hi:
        wrong.append(f"extremes ({omin[0]}, {omax[0]}) != ({lo}, {hi})")
    elif seq[int(omin[1])] != lo or seq[int(omax[1])] != hi:
        wrong.append("extreme indices do not hold the extreme values")
    if [bool(c) for c in cross] != want_cross:
        wrong.append(f"cross {[bool(c) for c in cross]} != {want_cross}")
    if start not in okst or end not in oken:
        wrong.append(f"start/end {start!r}/{end!r} not in {okst}/{list(oken)}")
    if wrong:
        rec.bad("derived-quantity-stale", f"{where}: " + "; ".join(wrong) +
                f" for the frames {seq[:12]} and interfaces {triple}", case)


def _do_paste(rec, M, rng, nb, nf, ov, limit_arg, mb, mf, tag):
    P, S, paste, arr = M
    t0 = rng.randrange(-50, 50)
    fb = [("b", t0 - k, [float(rng.randrange(-3, 9)), 1.0],
           rng.random() < 0.5) for k in range(nb)]
    ff = [("f", t0 + k + (0 if ov else 1), [float(rng.randrange(-3, 9)), 2.0],
           rng.random() < 0.5) for k in range(nf)]
    if ov and nb and nf:      # the shared point is the same phase point
        ff[0] = ("f", t0, fb[0][2], fb[0][3])
    back = _mk_path(P, S, mb, fb, arr, rng.randrange(100))
    forw = _mk_path(P, S, mf, ff, arr)
    shared_obj = (not ov) and nb and nf and rng.random() < 0.15
    if shared_obj:
        # both segments start from the very same System object and the caller
        # says there is NO shared point to drop: the frame is kept twice
        forw.phasepoints[0] = back.phasepoints[0]
        ff[0] = fb[0]
        rec.hit("paste_no_overlap_but_same_start_object")
    case = {"family": tag, "nb": nb, "nf": nf, "overlap": bool(ov),
            "maxlen": limit_arg, "maxlen_back": mb, "maxlen_forw": mf,
            "back": [list(x) for x in fb], "forw": [list(x) for x in ff]}
    rec.n += 1
    rec.hit("paste_cases")
    if rng.random() < 0.5:
        _touch(back), _touch(forw)
    try:
        new = paste(back, forw, overlap=bool(ov), maxlen=limit_arg)
    except BaseException as exc:
        rec.bad("paste-raised", f"paste_paths raised {type(exc).__name__}: "
                f"{exc}", case)
        return
    if ov and (nb == 0 or nf == 0):
        rec.hit("paste_overlap_with_empty_segment_no_law")
        return
    limit = limit_arg if limit_arg is not None else (
        mb if mb == mf else max(mb, mf))
    exp = [_snap(x) for x in reversed(back.phasepoints)]
    exp += [_snap(x) for x in forw.phasepoints[(1 if ov else 0):]]
    total = len(exp)
    exp = exp[:limit]
    got = [_snap(x) for x in new.phasepoints]
    case["result"] = [_lab(x) for x in new.phasepoints]
    rec.hit("paste_limit_none" if limit_arg is None else "paste_limit_given")
    if limit < total:
        rec.hit("paste_truncated")
        if limit < nb:
            rec.hit("paste_truncated_inside_backward_part")
    elif limit == total:
        rec.hit("paste_limit_exactly_total")
    rec.hit("paste_overlap" if ov else "paste_no_overlap")
    rec.reach("paste_length")
    if len(got) != min(limit, nb + nf - (1 if ov else 0)):
        rec.bad("paste-length", f"length {len(got)} != min(limit {limit}, "
                f"{nb}+{nf}-{int(bool(ov))})", case)
    if nb and limit >= 1:
        rec.reach("paste_first_frame")
        if not got or got[0] != _snap(back.phasepoints[-1]):
            rec.bad("paste-first-frame", "pasted path does not begin with "
                    "the last backward frame", case)
    rec.reach("paste_frames")
    if got != exp:
        rec.bad("paste-frames", "frames are not reversed(back) + "
                "forward[shared:] (cut at the limit)", case)
    _derived(rec, new, case, "pasted path")
    rec.reach("paste_time_order")
    times = [x.config[1] for x in new.phasepoints]
    if shared_obj:
        pass        # the doubled junction frame repeats a time by design
    elif any(b - a != 1 for a, b in zip(times, times[1:])):
        rec.bad("paste-time-order", f"frame times {times} do not increase "
                "by one step", case)
    if nb and nf:
        kind = "N" if limit_arg is None else "G"
        rec.sigs.add(f"P{nb},{nf},{int(bool(ov))},{kind},"
                     f"{max(-2, min(2, limit - nb))},"
                     f"{max(-2, min(2, limit - total))}")
    if len(rec.samples) < 1 and nb > 1 and nf > 1:
        rec.samples.append(case)


def _rand_paste(rec, M, rng, nmax):
    ov = rng.random() < 0.6
    lo = 1 if ov else 0
    nb, nf = rng.randrange(lo, nmax + 1), rng.randrange(lo, nmax + 1)
    total = nb + nf - (1 if ov else 0)
    r = rng.random()
    if r < 0.2:                     # limit from the segments themselves
        limit_arg = None
        mb = nb + rng.randrange(0, 4)
        mf = mb if rng.random() < 0.5 else nf + rng.randrange(0, 4)
    else:
        if r < 0.7:
            limit_arg = max(0, rng.choice([nb - 1, nb, nb + 1, total - 1,
                                           total, total + 1]))
        else:
            limit_arg = rng.randrange(0, total + 3)
        mb, mf = nb + rng.randrange(0, 3), nf + rng.randrange(0, 3)
    _do_paste(rec, M, rng, nb, nf, ov, limit_arg, mb, mf, "paste")


def _exh_paste(rec, M, job):
    rng = random.Random(job["seed"])
    ov, nmax = job["overlap"], job["nmax"]
    for nb in range(0, nmax + 1):
        for nf in range(0, nmax + 1):
            for lim in list(range(0, nb + nf + 2)) + ["eq", "ne", "cap"]:
                if lim == "eq":
                    la, mb, mf = None, max(nb, nf) + 1, max(nb, nf) + 1
                elif lim == "ne":
                    la, mb, mf = None, nb + 1, nf + 2
                elif lim == "cap":
                    la, mb, mf = None, nb, nf
                else:
                    la, mb, mf = lim, nb, nf
                _do_paste(rec, M, rng, nb, nf, ov, la, mb, mf, "paste")
    # out-of-scope probe (counted, never reported): None on one side only
    P, S, paste, arr = M
    a = _mk_path(P, S, None, [("b", 0, [1.0], False)], arr)
    b = _mk_path(P, S, 5, [("f", 0, [1.0], False)], arr)
    try:
        paste(a, b)
        rec.hit("probe_maxlen_None_vs_int_ok")
    except TypeError:
        rec.hit("probe_maxlen_None_vs_int_TypeError_out_of_scope")
    a.maxlen = b.maxlen = None
    try:
        if paste(a, b, overlap=False).length == 2:
            rec.hit("probe_maxlen_None_both_unlimited_ok")
    except BaseException:
        rec.hit("probe_maxlen_None_both_raises_out_of_scope")


# ---------------------------------------------------------------- REVERSE
def _do_reverse(rec, M, rng, flags, rev_v, fnkind):
    P, S, _paste, arr = M
    n = len(flags)
    t0 = rng.randrange(1, 40)     # never 0: _calc must depend on the flag
    fr = []
    for k, fl in enumerate(flags):
        t = t0 + k
        order = _calc(("r", t), fl) if fnkind != "none" else \
            [float(rng.randrange(-3, 9)), 3.0]
        fr.append(("r", t, order, fl))
    p = _mk_path(P, S, n + rng.randrange(0, 3), fr, arr)
    fn = None if fnkind == "none" else _OrderFn(fnkind == "veldep")
    case = {"family": "reverse", "frames": [list(x) for x in fr],
            "rev_v": rev_v, "order_function": fnkind}
    before = [_snap(x) for x in p.phasepoints]
    rec.n += 1
    rec.hit(f"reverse_cases_fn_{fnkind}")
    rec.hit("reverse_rev_v_true" if rev_v else "reverse_rev_v_false")
    if rng.random() < 0.6:
        _touch(p)
    try:
        q = p.reverse(fn, rev_v=rev_v) if not (rev_v and rng.random() < 0.5) \
            else p.reverse(fn)
        _derived(rec, q, case, "reversed path")
        qq = q.reverse(fn, rev_v=rev_v)
        _derived(rec, qq, case, "twice reversed path")
    except BaseException as exc:
        rec.bad("reverse-raised", f"Path.reverse raised "
                f"{type(exc).__name__}: {exc}", case)
        return
    got = [_snap(x) for x in q.phasepoints]
    live = [_snap(x) for x in p.phasepoints]
    case["result"] = [_lab(x) for x in q.phasepoints]
    recompute = fnkind == "veldep" and rev_v
    for name, src in (("snapshot", before), ("live", live)):
        rs = src[::-1]
        rec.reach("reverse_order")
        if len(got) != n or any(g[0] != s[0] or g[3:] != s[3:]
                                for g, s in zip(got, rs)):
            rec.bad("reverse-frame-order", "reversed path is not the source "
                    f"frames in reverse order (vs {name} of the source)",
                    case)
            continue
        rec.reach("reverse_flags")
        if any((g[2] == s[2]) == rev_v for g, s in zip(got, rs)):
            rec.bad("reverse-flag", f"velocity flags are not "
                    f"{'flipped' if rev_v else 'kept'} frame by frame "
                    f"(rev_v={rev_v}, vs {name} of the source)", case)
        want = [tuple(_calc(g[0], g[2])) if recompute else s[1]
                for g, s in zip(got, rs)]
        if [g[1] for g in got] != want:
            rec.bad("reverse-order-values", "order parameters of the "
                    f"reversed frames are wrong (function {fnkind}, vs "
                    f"{name})", case)
    rec.reach("reverse_twice")
    back2 = [_snap(x) for x in qq.phasepoints]
    if back2 != before or back2 != live:
        rec.bad("reverse-twice", "reverse(reverse(p)) does not have the "
                "frames of p" + ("" if before == live else
                                 " (the source path itself was changed)"),
                case)
    if n >= 2:
        rec.sigs.add(f"R{n},{''.join('1' if f else '0' for f in flags)},"
                     f"{int(rev_v)},{fnkind}")
    if len(rec.samples) < 2 and n == 3 and fnkind == "veldep" and rev_v:
        rec.samples.append(case)


def _exh_rev(rec, M, job):
    rng = random.Random(job["seed"])
    for n in range(0, job["nmax"] + 1):
        for flags in itertools.product([False, True], repeat=n):
            for rev_v in (True, False):
                for fk in ("none", "velindep", "veldep"):
                    _do_reverse(rec, M, rng, list(flags), rev_v, fk)


# ------------------------------------------------------------------- COPY
def _new_value(field, k, arr2):
    return {"config": ("changed", 10 ** 6 + k), "order": [1e9 + k],
            "pos": arr2, "vel": arr2, "vel_rev": None, "ekin": 1e9 + k,
            "vpot": -1e9 - k, "box": arr2, "temperature": {"changed": k}
            }[field]


def _independent(rec, mon, mech, copies, sources, case, arr2, what):
    """Re-assign every field of every copied frame; sources must not move."""
    before = [_snap(x) for x in sources]
    for k, c in enumerate(copies):
        for f in FIELDS:
            setattr(c, f, (not c.vel_rev) if f == "vel_rev"
                    else _new_value(f, k, arr2))
            rec.reach(mon)
            now = [_snap(x) for x in sources]
            if now != before:
                j = next(i for i, (a, b) in enumerate(zip(now, before))
                         if a != b)
                rec.bad(mech, f"{what}: re-assigning .{f} of copied frame "
                        f"{k} changed source frame {j}", case)
                return


def _do_copy(rec, M, rng, n):
    import numpy as np
    P, S, _paste, arr = M
    arr2 = np.ones(2)
    fr = [("c", k, [float(rng.randrange(-3, 9)), 4.0], rng.random() < 0.5)
          for k in range(n)]
    kind = rng.choice(["path", "path", "iadd", "system"])
    case = {"family": "copy", "kind": kind, "frames": [list(x) for x in fr]}
    rec.n += 1
    rec.hit("copy_cases_" + kind)
    p = _mk_path(P, S, n + rng.randrange(0, 3), fr, arr, rng.randrange(50))
    src = [_snap(x) for x in p.phasepoints]
    try:
        if kind == "path":
            if rng.random() < 0.6:
                _touch(p)
            overlong = n >= 2 and rng.random() < 0.2
            if overlong:
                # a path holding more frames than its own limit (the limit
                # was re-assigned after the frames were added, as
                # load_paths_from_disk does with the configured maxlength)
                p.maxlen = rng.randrange(0, n)
                case["maxlen_after"] = p.maxlen
                rec.hit("copy_of_path_longer_than_its_limit")
            c = p.copy()
            rec.reach("copy_frames")
            got_c = [_snap(x) for x in c.phasepoints]
            if overlong:
                # the property does not say whether such a copy is cut at
                # the limit; whatever it holds must be a prefix of the
                # source - and independent of it (checked below)
                if got_c != src[:len(got_c)]:
                    rec.bad("copy-frames", "Path.copy of an over-long path "
                            "is not a prefix of the source frames", case)
                if len(got_c) < n:
                    rec.hit("copy_of_overlong_path_cut_at_limit")
            elif got_c != src:
                rec.bad("copy-frames", "Path.copy does not hold the same "
                        "frames in the same order", case)
            _derived(rec, c, case, "copied path")
            # the copy is then extended, as the shooting / wire-fencing code
            # does: by append() or by assigning a longer frame list
            # (tis.extender: `path.phasepoints = path.phasepoints[:-1] + ...`)
            c2 = p.copy()
            c2.maxlen = n + 4
            far = [_frame(S, "e", 100 + k, [float(rng.choice([-50, 50, 3])),
                                            4.0], False, arr)
                   for k in range(2)]
            if rng.random() < 0.5:
                for x in far:
                    c2.append(x)
                how = "copy extended with append()"
            else:
                c2.phasepoints = c2.phasepoints[:-1] + far
                how = "copy extended by assigning phasepoints"
            rec.hit("copy_then_extended")
            _derived(rec, c2, dict(case, extended=how), how)
            if any(a is b for a in c.phasepoints for b in p.phasepoints):
                rec.hit("copy_shares_frame_objects")
            _independent(rec, "copy_independence", "copy-aliases-original",
                         c.phasepoints, p.phasepoints, case, arr2,
                         "Path.copy")
            sig = f"C{kind},{n}"
        elif kind == "system":
            cs = [x.copy() for x in p.phasepoints]
            if [_snap(x) for x in cs] != src:
                rec.bad("system-copy-differs", "System.copy differs from "
                        "its source", case)
            _independent(rec, "system_copy_independence",
                         "system-copy-aliases-original", cs, p.phasepoints,
                         case, arr2, "System.copy")
            sig = f"C{kind},{n}"
        else:
            na = rng.randrange(0, 6)
            cap = max(na, rng.choice([na, na + n - 1, na + n, na + n + 1,
                                      rng.randrange(na, na + n + 2)]))
            fa = [("a", -k, [float(k), 5.0], False) for k in range(na)]
            a = _mk_path(P, S, cap, fa, arr)
            case.update(self_frames=[list(x) for x in fa], maxlen=cap)
            exp = ([_snap(x) for x in a.phasepoints] + src)[:cap]
            own = a.phasepoints[:]
            a += p
            rec.reach("iadd_frames")
            if cap < na + n:
                rec.hit("iadd_truncated")
            if [_snap(x) for x in a.phasepoints] != exp:
                rec.bad("iadd-frames", "`self += other` is not self's frames "
                        "followed by other's, cut at maxlen", case)
            if not a.append(_frame(S, "x", 0, [0.0], False, arr)) and \
                    a.length < cap:
                rec.bad("append-refused-below-limit", "append returned "
                        "False below maxlen", case)
            if a.length > cap:
                rec.bad("append-beyond-limit", f"length {a.length} exceeds "
                        f"maxlen {cap}", case)
            added = [x for x in a.phasepoints if not any(x is o for o in own)]
            _independent(rec, "iadd_independence", "iadd-aliases-original",
                         added, p.phasepoints, case, arr2, "`+=`")
            sig = f"C{kind},{n},{_cmp(cap, na + n)}"
    except BaseException as exc:
        rec.bad("copy-raised", f"{kind} copy raised {type(exc).__name__}: "
                f"{exc}", case)
        return
    if n >= 2:
        rec.sigs.add(sig)


# --------------------------------------------------------------- CLASSIFY
def _side(o, left, right):
    """State A = {o <= left}, state B = {o >= right}; allowed answers."""
    if left == right == o:
        return ("L", "R")
    if o <= left:
        return ("L",)
    if o >= right:
        return ("R",)
    return (None,)


def _do_class(rec, M, seq, triple, extra, tag):
    P, S, _paste, arr = M
    fr = [("o", k, [v] + extra, False) for k, v in enumerate(seq)]
    p = _mk_path(P, S, len(seq) + 5, fr, arr)
    case = {"family": tag, "orders": list(seq), "interfaces": list(triple),
            "extra_order_components": extra}
    rec.n += 1
    rec.hit("classify_cases")
    left, right = triple[0], triple[2]
    lo, hi = min(seq), max(seq)
    try:
        omin, omax = p.ordermin, p.ordermax
        start, end, middle, cross = p.check_interfaces(list(triple))
        s2, e2 = p.get_start_point(left, right), p.get_end_point(left, right)
        s1 = [p.get_start_point(x) for x in triple]
        e1 = [p.get_end_point(x) for x in triple]
    except BaseException as exc:
        rec.bad("classify-raised", f"classification raised "
                f"{type(exc).__name__}: {exc}", case)
        return
    case["result"] = {"start": start, "end": end, "middle": middle,
                      "cross": [bool(c) for c in cross],
                      "ordermin": [float(omin[0]), int(omin[1])],
                      "ordermax": [float(omax[0]), int(omax[1])]}
    rec.reach("extremes")
    if omin[0] != lo or seq[int(omin[1])] != lo:
        rec.bad("ordermin", f"ordermin {case['result']['ordermin']} is not "
                f"(min value {lo}, an index holding it)", case)
    if omax[0] != hi or seq[int(omax[1])] != hi:
        rec.bad("ordermax", f"ordermax {case['result']['ordermax']} is not "
                f"(max value {hi}, an index holding it)", case)
    rec.reach("start_point")
    okst = ["?" if x is None else x for x in _side(seq[0], left, right)]
    if start not in okst or s2 not in okst:
        rec.bad("start-point", f"start {start!r}/{s2!r} but first value "
                f"{seq[0]} vs left {left}, right {right} demands {okst}",
                case)
    for x, s in zip(triple, s1):
        if s not in ["?" if y is None else y for y in _side(seq[0], x, x)]:
            rec.bad("start-point-single", f"get_start_point({x}) = {s!r} "
                    f"for first value {seq[0]}", case)
    rec.reach("end_point")
    oken = _side(seq[-1], left, right)
    if end not in oken or e2 not in oken:
        rec.bad("end-point", f"end {end!r}/{e2!r} but last value {seq[-1]} "
                f"vs left {left}, right {right} demands {list(oken)}", case)
    for x, e in zip(triple, e1):
        if e not in _side(seq[-1], x, x):
            rec.bad("end-point-single", f"get_end_point({x}) = {e!r} for "
                    f"last value {seq[-1]}", case)
    rec.reach("crossing")
    want = [any(v < x for v in seq) and any(v >= x for v in seq)
            for x in triple]
    if [bool(c) for c in cross] != want or want != [lo < x <= hi
                                                    for x in triple]:
        rec.bad("crossing", f"cross {case['result']['cross']} but min {lo}, "
                f"max {hi} vs interfaces {list(triple)} demand {want}", case)
    rec.reach("middle")
    if middle != ("M" if want[1] else "*"):
        rec.bad("middle", f"middle {middle!r} but 2nd interface crossed = "
                f"{want[1]}", case)
    for nm, val in (("first", seq[0]), ("last", seq[-1]), ("min", lo),
                    ("max", hi)):
        for im, x in zip(("left", "middle", "right"), triple):
            if val == x:
                rec.hit(f"classify_{nm}_equals_{im}_interface")
    if left == right:
        rec.hit("classify_left_equals_right")
    if lo != hi:
        rec.sigs.add("K" + "".join(_cmp(v, x) for v in (seq[0], seq[-1], lo,
                                                        hi) for x in triple)
                     + _cmp(triple[0], triple[1]) + _cmp(triple[1], triple[2]))
    if len(rec.samples) < 2 and 3 <= len(seq) <= 5 and lo != hi:
        rec.samples.append(case)


def _rand_class(rec, M, rng, nmax):
    n = rng.randrange(1, nmax + 1)
    seq = [float(rng.randrange(0, 7)) for _ in range(n)]
    triple = sorted(float(rng.randrange(1, 6)) for _ in range(3))
    r = rng.random()
    if r < 0.15:      # half-integers in between
        seq = [v + 0.5 * (rng.random() < 0.5) for v in seq]
    elif r < 0.3:     # negative values and a non-representable scale
        seq = [(v - 4) * 0.1 for v in seq]
        triple = [(v - 4) * 0.1 for v in triple]
    elif r < 0.4:     # plain ints
        seq, triple = [int(v) for v in seq], [int(v) for v in triple]
    extra = [[], [99.0], [-99.0, 0.0]][rng.randrange(3)]
    _do_class(rec, M, seq, triple, extra, "classify")


def _exh_class(rec, M, job):
    vals = [0.0, 1.0, 2.0, 3.0, 4.0]
    triples = [t for t in itertools.product([1.0, 2.0, 3.0], repeat=3)
               if t[0] <= t[1] <= t[2]]
    for n in range(1, job["lmax"] + 1):
        for rest in itertools.product(vals, repeat=n - 1):
            seq = [vals[job["first"]]] + list(rest)
            for t in triples:
                _do_class(rec, M, seq, t, [55.0], "classify")


# ------------------------------------------------------------------- work
def work(job, scratch):
    import numpy as np
    from infretis.classes.path import Path, paste_paths
    from infretis.classes.system import System
    M = (Path, System, paste_paths, np.zeros(3))
    rec = _Rec()
    kind = job["kind"]
    if kind == "rand":
        rng = random.Random(job["seed"])
        nmax = job["nmax"]
        for _ in range(job["count"]):
            r = rng.random()
            if r < 0.35:
                _rand_paste(rec, M, rng, nmax)
            elif r < 0.55:
                n = rng.randrange(0, nmax + 1)
                _do_reverse(rec, M, rng,
                            [rng.random() < 0.5 for _ in range(n)],
                            rng.random() < 0.8,
                            rng.choice(["none", "velindep", "veldep"]))
            elif r < 0.7:
                _do_copy(rec, M, rng, rng.randrange(0, nmax + 1))
            else:
                _rand_class(rec, M, rng, nmax)
    elif kind == "exh_paste":
        _exh_paste(rec, M, job)
    elif kind == "exh_rev":
        _exh_rev(rec, M, job)
        rng = random.Random(job["seed"])
        for n in range(0, 9):       # the copy family on every small size
            for _ in range(12):
                _do_copy(rec, M, rng, n)
    elif kind == "exh_class":
        _exh_class(rec, M, job)
    if os.environ.get("VERIF_SHOWREPO"):     # which tree is under test
        import infretis
        rec.hit("repo=" + os.path.dirname(infretis.__file__))
    return {"n": rec.n, "sigs": sorted(rec.sigs), "events": rec.ev,
            "violations": rec.v[:40], "samples": rec.samples[:2],
            "reached": rec.reached, "notes": []}
