"""C17 - exactly the requested number of moves; each result consumed once."""
import importlib.util  # noqa: F401
import os
import random

from vf.checks import _schedfam as F

PROPERTY = "C17"
LEVEL = "exploration"
RULE = ("(a) grid of (ensembles, workers, steps, restart point, clean stop or "
        "kill) for the real scheduler() in the rig: counts of treat_output "
        "calls, cstep/locked in restart.toml and 'shooted' records in sim.log "
        "against the requested steps, continuation at cstep+1; (b) the real "
        "aiorunner + future_list with forked worker processes under stress: "
        "unique task ids written with one O_APPEND write per execution, "
        "results/exceptions delivered once to the right future, clean stop "
        "(vf.runner_stress). Non-trivial grid case = >=2 workers or a "
        "restart; distinct = distinct (parameters, completion order).")
ASSUMPTIONS = [
    "steps >= workers in the first segment, as the property states",
    "'shuts down cleanly' = stop() returns, loop thread joined, queue empty, "
    "no pending asyncio task, host process exits 0 without child processes",
]
MUST_REACH = ["count_treat", "end_counts", "runner_exactly_once",
              "restart_cstep_per_move", "e2e_counts", "moves_recorded_once"]
JOB_TIMEOUT = 1500


def _grid(tier, seed):
    rng = random.Random(f"C17-{seed}")
    specs = []
    ncase = 240 if tier == "quick" else 6000
    for _ in range(ncase):
        n = rng.randint(2, 6)
        w = rng.randint(1, n - 1)
        steps = rng.randint(w, 36)
        spec = {"n_intf": n, "workers": w, "steps": steps,
                "moves": ["sh"] + [rng.choice(["sh", "wf"])
                                   for _ in range(n - 1)],
                "seed": rng.randrange(2 ** 31),
                "policy": rng.choice(F.POLICIES),
                "adv_seed": rng.randrange(2 ** 31), "maxlength": 200,
                "screen": rng.choice([1, 1, 1, 0, 2, 3, 5])}
        r = rng.random()
        if r < 0.6 and steps - 1 >= w:
            k = rng.randint(w, steps - 1)
            more = rng.randint(steps, steps + 12)
            r2 = rng.random()
            if r2 < 0.4:
                spec["segments"] = [{"steps": k}, {"steps": steps}]
            elif r2 < 0.8:
                spec["segments"] = [{"steps": steps, "kill_after": k},
                                    {"steps": steps}]
            else:
                # the main process dies INSIDE a step: right after the data
                # row(s) of an accepted move were appended, or right after
                # the restart file was rewritten
                spec["segments"] = [
                    {"steps": steps, "kill_in": [rng.choice(
                        ["after_write_to_pathens", "after_write_toml"]),
                        rng.randint(1, max(1, k))]},
                    {"steps": steps}]
            if rng.random() < 0.4:
                spec["segments"].append({"steps": more})
        elif r < 0.75:
            # run to the end, then ask for more
            spec["segments"] = [{"steps": steps},
                                {"steps": steps + rng.randint(1, 10)}]
        specs.append(spec)
    return specs


def plan(tier, seed):
    specs = _grid(tier, seed)
    per = 12
    jobs = [{"kind": "rig", "hashseed": i % 97, "specs": specs[i:i + per]}
            for i in range(0, len(specs), per)]
    from vf import runner_stress
    jobs += runner_stress.plan(tier, seed)
    # true multi-process end-to-end runs (real aiorunner + forked workers)
    import random as _r
    rng = _r.Random(f"C17e-{seed}")
    for j in range(8 if tier == "quick" else 96):
        n = rng.randint(3, 6)
        w = rng.randint(2, n - 1)
        steps = rng.randint(w + 4, 30)
        jobs.append({"kind": "e2e", "hashseed": 0, "spec": {
            "n_intf": n, "workers": w, "steps": steps, "more": rng.randint(
                w, 12), "moves": ["sh"] + [rng.choice(["sh", "wf"])
                                           for _ in range(n - 1)],
            "seed": rng.randrange(2 ** 31), "maxlength": 200,
            "delete_old": rng.random() < 0.5}})
    return jobs


def _mons(spec, cdir):
    from vf.monitors import CountMonitor
    from vf.rig_sched import read_restart

    class M(CountMonitor):
        def after_treat(self, rig, state, out, md_items):
            CountMonitor.after_treat(self, rig, state, out, md_items)
            # the completed move must be recorded: the restart file on disk
            # carries the step counter of the move just completed
            try:
                c = read_restart(rig.cdir)["current"]["cstep"]
            except Exception:
                c = None
            rig.reach("restart_cstep_per_move")
            if c != int(state.cstep):
                rig.violate("restart-file-lags-completed-moves",
                            f"after move {int(state.cstep)} restart.toml on "
                            f"disk has cstep={c} (screen="
                            f"{spec.get('screen', 1)})")

        def after_segment(self, rig, i, out):
            segs = spec.get("segments") or [{"steps": spec["steps"]}]
            seg = segs[i]
            rec = self.per_segment[-1] if self.per_segment else None
            if out == "nothing":
                return
            if rec is None or not os.path.isfile(
                    os.path.join(rig.cdir, "restart.toml")):
                return
            rig.reach("end_counts")
            cfg = read_restart(rig.cdir)
            cur = cfg["current"]
            w = spec["workers"]
            if out == "done":
                want = max(seg["steps"], rec["start_cstep"])
                remaining = seg["steps"] - rec["start_cstep"]
                short = i > 0 and 0 < remaining < w
                if cur["cstep"] != want:
                    rig.violate("cstep-wrong-at-end",
                                f"finished segment {i}: cstep {cur['cstep']} "
                                f"!= requested {want}")
                if rec["treated"] != max(0, remaining):
                    rig.violate("moves-completed-wrong",
                                f"segment {i} completed {rec['treated']} moves"
                                f", {remaining} were requested")
                if cur["locked"]:
                    rig.violate(
                        "inflight-after-finish:restart-remaining<workers"
                        if short else "inflight-after-finish",
                        f"finished run leaves jobs in flight: "
                        f"{cur['locked']} (segment {i}, start "
                        f"{rec['start_cstep']}, steps {seg['steps']}, "
                        f"workers {w})")
                if rec["submitted"] != rec["treated"]:
                    rig.violate(
                        "submitted-not-consumed:restart-remaining<workers"
                        if short else "submitted-not-consumed",
                        f"segment {i}: {rec['submitted']} jobs submitted, "
                        f"{rec['treated']} results consumed")
                rig.ev("finished_segments")
                # "completed and recorded - never more, never fewer": every
                # replaced path has exactly one data row, no live path has one
                try:
                    from vf.rig_sched import parse_data_file
                    df = cfg["output"]["data_file"]
                    df = df if os.path.isabs(df) else os.path.join(rig.cdir,
                                                                   df)
                    cnt = {}
                    for r in parse_data_file(df):
                        cnt[r["pn"]] = cnt.get(r["pn"], 0) + 1
                    rig.reach("moves_recorded_once")
                    active = set(cur["active"])
                    twice = sorted(p for p, c in cnt.items() if c > 1)
                    lost = sorted(p for p in range(cur["traj_num"])
                                  if p not in active and p not in cnt)
                    live = sorted(p for p in cnt if p in active)
                    if twice:
                        rig.violate("move-recorded-twice", f"paths {twice} "
                                    "have more than one data row")
                    if lost:
                        rig.violate("move-not-recorded", f"replaced paths "
                                    f"{lost} have no data row")
                    if live:
                        rig.violate("live-path-recorded", f"active paths "
                                    f"{live} have a data row")
                except OSError:
                    pass
            elif out == "killed" and "kill_in" in seg:
                rig.ev("killed_inside_step_segments")
            elif out == "killed":
                k = seg["kill_after"]
                if cur["cstep"] != rec["start_cstep"] + k:
                    rig.violate("cstep-wrong-at-kill",
                                f"cstep {cur['cstep']} after {k} completed "
                                f"moves from {rec['start_cstep']}")
                rig.ev("killed_segments")
            if i > 0 and rec["treated"] > 0:
                # continuation: first completed move of this segment is
                # numbered start+1 (CountMonitor checks every move)
                rig.ev("continuations")
            # sim.log records
            n_sh = 0
            with open(os.path.join(rig.cdir, "sim.log")) as f:
                for line in f:
                    if "]: shooted " in line:
                        n_sh += 1
            inside = any("kill_in" in sg for sg in segs)
            # (a move cut short inside treat_output is logged, and possibly
            # redone after the restart: the log is no step counter then)
            if spec.get("screen", 1) == 1 and n_sh != self.treated and \
                    not inside:
                rig.violate("log-records", f"{n_sh} 'shooted' records in "
                            f"sim.log, {self.treated} moves completed")
    return [M()]


def _nontrivial(rig, spec, mons):
    return spec["workers"] >= 2 or bool(spec.get("segments"))


def _e2e(job, scratch):
    """Real scheduler + real runner + forked workers, then a restart."""
    import subprocess
    import sys
    from vf import rig_sched as R
    from vf.probe_restart import run_probe
    from vf.runner_stress import _survivors
    res = {"n": 0, "sigs": [], "events": {}, "violations": [], "samples": [],
           "reached": {}, "notes": [], "inconclusive": []}
    spec = job["spec"]
    cdir = os.path.join(scratch, "e2e")
    R.make_case_dir(spec, cdir)
    env = dict(os.environ)
    env["PYTHONPATH"] = os.environ.get("VERIF_REPO", "/repo") + ":" + \
        os.path.dirname(os.path.dirname(os.path.dirname(
            os.path.abspath(__file__))))
    total = spec["steps"]
    for leg, inp in enumerate(["infretis.toml", "restart.toml"]):
        if leg == 1:
            total = spec["steps"] + spec["more"]
            R.set_restart_steps(cdir, total)
        p = subprocess.Popen([sys.executable, "-m", "vf.e2e_host", cdir, inp],
                             env=env, start_new_session=True,
                             stdout=subprocess.PIPE, stderr=subprocess.STDOUT)
        try:
            so, _ = p.communicate(timeout=600)
        except subprocess.TimeoutExpired:
            os.killpg(p.pid, 9)
            res["inconclusive"].append("end-to-end run hit the 600 s "
                                       "watchdog")
            return res
        res["n"] += 1
        wit = {"e2e": F.brief(spec), "leg": leg}
        if p.returncode != 0:
            res["violations"].append(dict(
                wit, mech="e2e-run-failed", what=f"exit code {p.returncode}: "
                + so.decode(errors="replace")[-700:]))
            return res
        res["reached"]["e2e_counts"] = res["reached"].get("e2e_counts", 0) + 1
        cur = R.read_restart(cdir)["current"]
        if cur["cstep"] != total:
            res["violations"].append(dict(
                wit, mech="cstep-wrong-at-end",
                what=f"real run ended with cstep {cur['cstep']}, {total} "
                     "requested"))
        if cur["locked"]:
            res["violations"].append(dict(
                wit, mech="inflight-after-finish",
                what=f"finished real run leaves {cur['locked']} in flight"))
        n_sh = sum(1 for ln in open(os.path.join(cdir, "sim.log"))
                   if "]: shooted " in ln)
        if n_sh != total:
            res["violations"].append(dict(
                wit, mech="log-records", what=f"{n_sh} 'shooted' records "
                f"after {total} requested moves"))
        rows = R.parse_data_file(os.path.join(cdir, "infretis_data.txt"))
        pns = [r["pn"] for r in rows]
        if len(set(pns)) != len(pns):
            res["violations"].append(dict(
                wit, mech="row-twice", what="a path has two data rows"))
        if set(pns) & set(cur["active"]):
            res["violations"].append(dict(
                wit, mech="row-for-live-path", what="active path has a row"))
        import time as _t
        _t.sleep(0.3)
        if _survivors(p.pid):
            _t.sleep(1.5)
            if _survivors(p.pid):
                res["violations"].append(dict(
                    wit, mech="child-processes-survive",
                    what="worker processes outlive the finished run"))
                try:
                    os.killpg(p.pid, 9)
                except OSError:
                    pass
        res["events"]["e2e_runs"] = res["events"].get("e2e_runs", 0) + 1
        res["events"]["e2e_moves"] = res["events"].get("e2e_moves", 0) + (
            total if leg == 0 else spec["more"])
    pr = run_probe(cdir + "", picks=False)
    res["sigs"].append(f"e2e-{spec['n_intf']}-{spec['workers']}-"
                       f"{spec['steps']}-{spec['seed']}")
    res["samples"].append({"e2e": F.brief(spec)})
    return res


def work(job, scratch):
    if job["kind"] == "e2e":
        return _e2e(job, scratch)
    if job["kind"] == "runner":
        from vf import runner_stress
        return runner_stress.work(job, scratch)
    return F.generic_work(job, scratch, _mons, _nontrivial)
