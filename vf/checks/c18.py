"""C18 - invalid configurations are rejected up front; accepted ones initialise."""
import importlib.util  # noqa: F401
import copy
import itertools
import os
import random
import shutil

PROPERTY = "C18"
LEVEL = "exploration"
RULE = ("product of per-field value classes - interfaces (sorted / unsorted / "
        "duplicate / length 0-1, half-integer grid incl. negative values), "
        "workers 1..n+1, shooting-move lists shorter / equal / longer with "
        "every sh/wf pattern class, interface_cap (absent / below lambda_0 / "
        "equal lambda_0 / between / equal to an interface / lambda_N / above "
        "/ 0.0), engine sections present or missing, ensemble_engines absent "
        "/ defined / undefined, lambda_-1 (absent / below / equal / above "
        "lambda_0), quantis on/off - sampled pairwise-randomly. Oracle 1: a "
        "predicate 'is in a listed invalid class' written from the property "
        "text => setup_config must raise TOMLConfigError. Oracle 2: every "
        "accepted configuration initialises (real setup_internal with the "
        "lattice plug-in engine and valid generated initial paths, then the "
        "first `workers` prep_md_items). Oracle 3: setup_config on a restart "
        "file written by the program changes nothing but restarted_from, "
        "twice. 'Rejected although not listed' is counted, not reported. "
        "Non-trivial = at least one non-default class; distinct = distinct "
        "class tuple.")
ASSUMPTIONS = [
    "'no room for a wire-fencing ensemble' = interface_cap <= the interface "
    "of an ensemble that uses wf",
    "initial paths are valid for their ensembles on the integer lattice "
    "(caps and interfaces on the half-integer grid so that a site exists "
    "in every wire-fencing region)",
]
MUST_REACH = ["invalid_rejected", "accepted_initialised", "fixed_point",
              "second_initialisation_same_process",
              "invalid_restart_rejected"]
JOB_TIMEOUT = 1500

PLUGIN = os.path.join(os.path.dirname(os.path.dirname(
    os.path.abspath(__file__))), "plugins", "lattice.py")


def gen_case(rng):
    c = {}
    c["intf_class"] = rng.choice(["ok"] * 6 + ["unsorted", "dup", "len0",
                                               "len1"])
    n = rng.randint(2, 6)
    grid = [k + 0.5 for k in range(-3, 8)]
    start = rng.randint(0, len(grid) - n - 1)
    # strictly increasing, gaps of 1 or 2
    intf, cur = [], start
    for _ in range(n):
        intf.append(grid[min(cur, len(grid) - 1)])
        cur += rng.choice([1, 1, 2])
    intf = sorted(set(intf))
    n = len(intf)
    if c["intf_class"] == "unsorted" and n >= 2:
        i, j = rng.sample(range(n), 2)
        intf[i], intf[j] = intf[j], intf[i]
    elif c["intf_class"] == "dup" and n >= 2:
        i = rng.randrange(n - 1)
        intf[i + 1] = intf[i]
    elif c["intf_class"] == "len0":
        intf = []
    elif c["intf_class"] == "len1":
        intf = intf[:1]
    n = len(intf)
    c["interfaces"] = intf
    c["workers"] = rng.choice([1, 1, max(1, n - 1), max(1, n - 1), n, n + 1,
                               rng.randint(1, max(1, n))])
    c["moves_len"] = rng.choice(["eq"] * 5 + ["short", "long"])
    ln = {"eq": n, "short": max(0, n - 1), "long": n + 1}[c["moves_len"]]
    pat = rng.choice(["allsh", "allwf", "mixed", "mixed"])
    moves = []
    for i in range(ln):
        if i == 0:
            moves.append("sh")
        elif pat == "allsh":
            moves.append("sh")
        elif pat == "allwf":
            moves.append("wf")
        else:
            moves.append(rng.choice(["sh", "wf"]))
    c["moves"] = moves
    c["cap_class"] = rng.choice(["absent"] * 5 + ["below", "eq0", "between",
                                                  "at_intf", "atN", "above",
                                                  "zero"])
    cap = None
    if n >= 1:
        lo, hi = min(intf), max(intf)
        if c["cap_class"] == "below":
            cap = lo - rng.choice([1.0, 2.0])
        elif c["cap_class"] == "eq0":
            cap = lo
        elif c["cap_class"] == "between":
            cap = rng.choice(grid)
            cap = min(max(cap, lo), hi)
        elif c["cap_class"] == "at_intf":
            cap = rng.choice(intf)
        elif c["cap_class"] == "atN":
            cap = hi
        elif c["cap_class"] == "above":
            cap = hi + rng.choice([1.0, 3.0])
        elif c["cap_class"] == "zero":
            cap = 0.0
    c["cap"] = cap
    c["engine_class"] = rng.choice(["present"] * 6 + ["missing",
                                                      "ee_defined",
                                                      "ee_undefined",
                                                      "ee_shared01",
                                                      "ee_random",
                                                      "ee_undefined_2nd"])
    c["seed"] = rng.randrange(2 ** 31)
    c["ee_pattern"] = [rng.random() < 0.5 for _ in range(12)]
    c["lm1_class"] = rng.choice(["absent"] * 6 + ["below", "equal", "above",
                                                  "zero"])
    lm1 = None
    if n >= 1:
        if c["lm1_class"] == "below":
            lm1 = intf[0] - rng.choice([1.0, 2.0])
        elif c["lm1_class"] == "equal":
            lm1 = intf[0]
        elif c["lm1_class"] == "above":
            lm1 = intf[0] + 1.0
        elif c["lm1_class"] == "zero":
            lm1 = 0
    c["lm1"] = lm1
    c["quantis"] = rng.random() < 0.12
    c["quantis_engine0"] = rng.random() < 0.6
    return c


def listed_invalid(c):
    """Classes of the property statement this configuration falls in."""
    out = set()
    intf = c["interfaces"]
    n = len(intf)
    if n < 2:
        out.add("fewer-than-two-interfaces")
    if sorted(intf) != intf:
        out.add("unsorted-interfaces")
    if len(set(intf)) != n:
        out.add("duplicate-interfaces")
    if c["workers"] > n - 1:
        out.add("too-many-workers")
    if len(c["moves"]) < n:
        out.add("too-few-moves")
    cap = c["cap"]
    if cap is not None and n >= 1:
        if cap < min(intf) or cap > max(intf):
            out.add("cap-outside-interfaces")
        for i, mv in enumerate(c["moves"][1:n]):
            # ensemble i+ has interface intf[i]
            if mv == "wf" and i < n and cap <= intf[i]:
                out.add("cap-leaves-wf-no-room")
    if c["engine_class"] in ("missing", "ee_undefined", "ee_undefined_2nd"):
        out.add("undefined-engine")
    if c["quantis"] and c["engine_class"] in ("present", "missing") and \
            not c["quantis_engine0"]:
        out.add("undefined-engine")
    if c["lm1"] is not None and n >= 1 and c["lm1"] >= intf[0]:
        out.add("lm1-not-below-lambda0")
    return out


def build_config(c):
    n = len(c["interfaces"])
    tis = {"maxlength": 500, "allowmaxlength": False, "zero_momentum": False,
           "n_jumps": 2}
    if c["cap"] is not None:
        tis["interface_cap"] = c["cap"]
    if c["lm1"] is not None:
        tis["lambda_minus_one"] = c["lm1"]
    if c["quantis"]:
        tis["quantis"] = True
    engine = {"class": "LatticeEngine", "module": PLUGIN, "wall": -8,
              "subcycles": 1, "timestep": 1.0}
    cfg = {"runner": {"workers": c["workers"]},
           "simulation": {"interfaces": list(c["interfaces"]), "steps": 20,
                          "seed": c.get("seed", 3), "load_dir": "load",
                          "shooting_moves": list(c["moves"]),
                          "tis_set": tis},
           "orderparameter": {"class": "SiteOrder", "module": PLUGIN},
           "output": {"data_dir": "./", "screen": 1, "pattern": False,
                      "delete_old": False}}
    ec = c["engine_class"]
    if ec != "missing":
        cfg["engine"] = dict(engine)
    if ec == "ee_defined":
        cfg["engine_b"] = dict(engine)
        cfg["simulation"]["ensemble_engines"] = [
            ["engine"] if i % 2 == 0 else ["engine_b"] for i in range(n)]
    elif ec == "ee_shared01":
        # [0-] and [0+] share an engine that no other ensemble uses
        cfg["engine_b"] = dict(engine)
        cfg["simulation"]["ensemble_engines"] = [
            ["engine_b"] if i < 2 else ["engine"] for i in range(n)]
    elif ec == "ee_random":
        cfg["engine_b"] = dict(engine)
        cfg["simulation"]["ensemble_engines"] = [
            ["engine_b"] if c["ee_pattern"][i % 12] else ["engine"]
            for i in range(n)]
    elif ec == "ee_undefined_2nd":
        # an undefined engine listed behind a defined one, in an ensemble
        # whose first engine other ensembles have listed before
        cfg["simulation"]["ensemble_engines"] = [
            ["engine"] if i != max(n, 1) - 1 else ["engine", "ghost_engine"]
            for i in range(max(n, 1))]
    elif ec == "ee_undefined":
        cfg["simulation"]["ensemble_engines"] = [
            ["engine"] if i != n - 1 else ["ghost_engine"]
            for i in range(max(n, 1))]
    if c["quantis"] and c["quantis_engine0"]:
        cfg["engine0"] = dict(engine)
    return cfg


def write_paths(c, cdir):
    """Valid initial lattice paths for every ensemble of a valid config."""
    import math
    from vf.rig_sched import write_lat_path
    intf = c["interfaces"]
    n = len(intf)
    base = math.floor(intf[0])          # a site below lambda_0
    for ens in range(n):
        if ens == 0:
            top = base + 1
            if c["lm1"] is not None:
                sites = [top, base, top]
            else:
                sites = [top, base, base - 1, base, top]
        else:
            k = ens - 1
            peak = math.ceil(intf[k])
            up = list(range(base, peak + 1))
            sites = up + up[-2::-1]
        write_lat_path(os.path.join(cdir, "load", str(ens)), sites)


def plan(tier, seed):
    rng = random.Random(f"C18-{seed}")
    njobs = 24 if tier == "quick" else 400
    per = 130 if tier == "quick" else 380
    jobs = [{"kind": "cfg", "seed": rng.randrange(2 ** 31), "count": per,
             "hashseed": 0} for _ in range(njobs)]
    jobs.append({"kind": "fixed", "seed": rng.randrange(2 ** 31),
                 "count": 12 if tier == "quick" else 150, "hashseed": 0})
    return jobs


def _cfg_job(job, scratch):
    import tomli_w
    from vf import rig_sched as R
    from infretis.setup import TOMLConfigError, setup_config, setup_internal
    rng = random.Random(job["seed"])
    res = {"n": 0, "sigs": [], "events": {}, "violations": [], "samples": [],
           "reached": {}, "notes": []}

    def ev(k, n=1):
        res["events"][k] = res["events"].get(k, 0) + n

    def reach(k):
        res["reached"][k] = res["reached"].get(k, 0) + 1
    old = os.getcwd()
    for i in range(job["count"]):
        c = gen_case(rng)
        inv = listed_invalid(c)
        cdir = os.path.join(scratch, f"c{i}")
        os.makedirs(cdir)
        cfg = build_config(c)
        with open(os.path.join(cdir, "infretis.toml"), "wb") as f:
            tomli_w.dump(cfg, f)
        os.chdir(cdir)
        R.reset_globals()
        res["n"] += 1
        classes = (c["intf_class"], c["moves_len"], c["cap_class"],
                   c["engine_class"], c["lm1_class"], c["quantis"],
                   c["workers"] - len(c["interfaces"]))
        if any(x not in ("ok", "eq", "absent", "present", False) for x in
               classes[:6]):
            res["sigs"].append(repr(classes) + repr(sorted(inv)) +
                               repr(c["moves"]))
        brief = {k: c[k] for k in ("interfaces", "workers", "moves", "cap",
                                   "engine_class", "lm1", "quantis")}
        outcome, exc = None, None
        try:
            config = setup_config("infretis.toml")
            outcome = "accepted" if config is not None else "none"
        except TOMLConfigError as e:
            outcome, exc = "config-error", e
        except BaseException as e:
            outcome, exc = "other-exception", e
        ev("setup_" + outcome)
        if inv:
            reach("invalid_rejected")
            for k in inv:
                ev("invalid_" + k)
            if outcome == "accepted":
                res["violations"].append({
                    "mech": "invalid-config-accepted:" + "+".join(sorted(inv)),
                    "what": f"configuration in listed invalid class(es) "
                            f"{sorted(inv)} passed setup_config",
                    "case": brief})
            elif outcome == "other-exception":
                res["violations"].append({
                    "mech": "invalid-config-other-exception:" +
                            "+".join(sorted(inv)),
                    "what": f"listed-invalid configuration {sorted(inv)} "
                            f"raised {type(exc).__name__}: {exc} instead of "
                            "a configuration error", "case": brief})
        else:
            if outcome == "config-error":
                ev("rejected_though_not_listed")
            elif outcome == "other-exception":
                res["violations"].append({
                    "mech": "valid-config-crashes-in-setup",
                    "what": f"setup_config raised {type(exc).__name__}: "
                            f"{exc}", "case": brief})
            elif outcome == "accepted" and c["cap"] is not None and \
                    c["cap"] != int(c["cap"]) + 0.5 and "wf" in c["moves"]:
                # no lattice site inside [lambda_i, cap): no valid initial
                # path exists on the integer lattice
                ev("accepted_but_no_lattice_path_possible")
            elif outcome == "accepted":
                reach("accepted_initialised")
                try:
                    write_paths(c, cdir)
                    md_items, state = setup_internal(config)
                    k = 0
                    while state.initiate():
                        state.prep_md_items(copy.deepcopy(md_items))
                        k += 1
                    ev("accepted_initialised")
                    ev("first_picks", k)
                    nn = len(c["interfaces"])
                    if nn >= 3 and rng.random() < 0.5:
                        # a second initialisation in the SAME process (no
                        # reset of the module state in between), as a test
                        # harness or a notebook does: another valid worker
                        # count for the same sections
                        R.close_log_handlers()
                        c2 = dict(c, workers=rng.choice(
                            [w for w in range(1, nn) if w != c["workers"]]))
                        with open("infretis.toml", "wb") as f:
                            tomli_w.dump(build_config(c2), f)
                        shutil.rmtree("load", ignore_errors=True)
                        write_paths(c2, cdir)
                        config2 = setup_config("infretis.toml")
                        md2, st2 = setup_internal(config2)
                        k2 = 0
                        while st2.initiate():
                            st2.prep_md_items(copy.deepcopy(md2))
                            k2 += 1
                        reach("second_initialisation_same_process")
                        ev("second_initialisations")
                        if k2 != min(c2["workers"], 20):
                            res["violations"].append({
                                "mech": "second-initialisation-wrong-picks",
                                "what": f"{k2} first picks for "
                                        f"{c2['workers']} workers",
                                "case": brief})
                except BaseException as e:
                    import traceback
                    res["violations"].append({
                        "mech": "accepted-config-does-not-initialise",
                        "what": f"{type(e).__name__}: {e}",
                        "tb": traceback.format_exc()[-900:], "case": brief})
                finally:
                    R.close_log_handlers()
        if len(res["samples"]) < 2 and inv:
            res["samples"].append({"case": brief, "listed_invalid":
                                   sorted(inv), "outcome": outcome})
        os.chdir(old)
        shutil.rmtree(cdir, ignore_errors=True)
    return res


def _fixed_job(job, scratch):
    import tomli
    import tomli_w
    from vf import rig_sched as R
    from vf.checks import _schedfam as F
    from vf.sched_case import run_case
    from infretis.setup import setup_config
    rng = random.Random(job["seed"])
    res = {"n": 0, "sigs": [], "events": {}, "violations": [], "samples": [],
           "reached": {}, "notes": []}
    for i in range(job["count"]):
        spec = F.gen_spec(rng, "quick", steps=(6, 25), restarts=False)
        if rng.random() < 0.5 and spec["workers"] > 1:
            spec["segments"] = [{"steps": spec["steps"],
                                 "kill_after": rng.randint(
                                     min(spec["workers"], spec["steps"] - 1),
                                     spec["steps"] - 1)}]
        cdir = os.path.join(scratch, f"f{i}")
        rig, info = run_case(spec, cdir, [])
        if not os.path.isfile(os.path.join(cdir, "restart.toml")):
            continue
        res["n"] += 1
        old = os.getcwd()
        os.chdir(cdir)
        try:
            with open("restart.toml", "rb") as f:
                c1 = tomli.load(f)
            # make it restartable: more steps than done
            c1["simulation"]["steps"] = c1["current"]["cstep"] + 5
            with open("restart.toml", "wb") as f:
                tomli_w.dump(c1, f)
            R.reset_globals()
            c2 = setup_config("restart.toml")
            res["reached"]["fixed_point"] = \
                res["reached"].get("fixed_point", 0) + 1
            if c2 is None:
                res["violations"].append({
                    "mech": "restart-file-rejected", "what": "setup_config "
                    "returned None for a restart file the program wrote",
                    "spec": F.brief(spec)})
                continue
            a = copy.deepcopy(c2)
            a["current"].pop("restarted_from", None)
            b = copy.deepcopy(c1)
            b["current"].pop("restarted_from", None)
            if a != b:
                diff = [k for k in set(a) | set(b) if a.get(k) != b.get(k)]
                res["violations"].append({
                    "mech": "restart-normalisation-not-fixed-point",
                    "what": f"sections {diff} changed by re-reading the "
                            "restart file", "spec": F.brief(spec),
                    "before": {k: b.get(k) for k in diff if k != "current"},
                    "after": {k: a.get(k) for k in diff if k != "current"}})
            # invalid edits of a restart file must be rejected as well
            from infretis.setup import TOMLConfigError
            n_i = len(c1["simulation"]["interfaces"])
            intf = list(c1["simulation"]["interfaces"])
            edits = {
                "too-many-workers": (("runner", "workers"), n_i),
                "unsorted-interfaces": (("simulation", "interfaces"),
                                        intf[::-1]),
                "duplicate-interfaces": (("simulation", "interfaces"),
                                         [intf[0]] + intf[:-1]),
                "too-few-moves": (("simulation", "shooting_moves"),
                                  c1["simulation"]["shooting_moves"][:-1]),
                "cap-outside-interfaces": (("simulation", "tis_set",
                                            "interface_cap"), intf[-1] + 2),
                "lm1-not-below-lambda0": (("simulation", "tis_set",
                                           "lambda_minus_one"), intf[0] + 1),
                "undefined-engine": (("simulation", "ensemble_engines"),
                                     [["nosuch"]] * n_i),
            }
            for name, (keys, val) in edits.items():
                bad = copy.deepcopy(c1)
                d = bad
                for k in keys[:-1]:
                    d = d[k]
                d[keys[-1]] = val
                # the edited file IS restart.toml: under another name the
                # program compares it with the restart.toml next to it and,
                # because 0.0 == False in Python, may take that one instead
                with open("restart.toml", "wb") as f:
                    tomli_w.dump(bad, f)
                R.reset_globals()
                res["reached"]["invalid_restart_rejected"] = \
                    res["reached"].get("invalid_restart_rejected", 0) + 1
                try:
                    got = setup_config("restart.toml")
                    outcome = "accepted" if got is not None else "none"
                except TOMLConfigError:
                    outcome = "config-error"
                except BaseException as exc:
                    outcome = f"other:{type(exc).__name__}"
                if outcome != "config-error":
                    res["violations"].append({
                        "mech": "invalid-restart-config-accepted:" + name
                        if outcome in ("accepted", "none") else
                        "invalid-restart-config-other-exception:" + name,
                        "what": f"restart file edited to be invalid ({name}: "
                                f"{'.'.join(keys)} = {val}) gave {outcome}",
                        "spec": F.brief(spec)})
                res["events"]["invalid_restart_edits"] = \
                    res["events"].get("invalid_restart_edits", 0) + 1
            with open("restart.toml", "wb") as f:
                tomli_w.dump(c1, f)          # the program's own file again
            with open("restart2.toml", "wb") as f:
                tomli_w.dump(c2, f)
            c2["current"]["cstep"] = c2["current"]["cstep"]
            c3 = setup_config("restart2.toml")
            # second application: restarted_from == cstep now means "stop"
            res["events"]["fixed_point_checked"] = \
                res["events"].get("fixed_point_checked", 0) + 1
            res["sigs"].append(f"fixed-{spec['n_intf']}-{spec['moves']}-"
                               f"{spec['workers']}-{spec.get('cap')}-"
                               f"{bool(spec.get('segments'))}")
            if len(res["samples"]) < 1:
                res["samples"].append({"restart_fixed_point":
                                       F.brief(spec)})
        finally:
            os.chdir(old)
            R.close_log_handlers()
            shutil.rmtree(cdir, ignore_errors=True)
    return res


def work(job, scratch):
    if job["kind"] == "fixed":
        return _fixed_job(job, scratch)
    return _cfg_job(job, scratch)
