"""C19 - configuration / trajectory / input-template codecs are lossless."""
import importlib.util  # noqa: F401  (infretis.factory needs the submodule)
import copy
import logging
import os
import random
import zlib
from collections import Counter

PROPERTY = "C19"
LEVEL = "exploration"
RULE = (
    "Seeded random cases in 8 sub-families, every one run through the real "
    "functions of /repo and judged by independent format writers/parsers "
    "(vf/oracles/codecs19.py, templates19.py). Codecs (g96, xyz, lammpstrj, "
    "trr, gmxframe): 1-200 atoms (>=2 for LAMMPS), three magnitude classes "
    "up to the field width, 3- and 9-component boxes (3x2 / 3x3 bounds for "
    "dumps), sorted / shuffled / sparse ids, 1-5 frames; legs = independent "
    "writer -> real reader, real writer -> independent parser and real "
    "reader, engine._extract_frame(k), engine._reverse_velocities, "
    "_read_configuration; TRR in 2 byte orders x 2 precisions. Editors "
    "(mdp, cp2k, lammpsin): random templates (spacing, comments, repeated "
    "keys, nested / same-titled sections with parameters, missing final "
    "newline) and key sets (existing, new, repeated, removed); laws = "
    "requested entries present, all other entries unchanged, second "
    "application changes nothing (CP2K compared as section trees). A case "
    "is non-trivial if all its numbers are distinct and non-zero (codecs) or "
    "if it has >= 1 requested and >= 1 unrequested entry (editors); distinct "
    "= distinct (sub-family, crc32 of the literal input).")
ASSUMPTIONS = [
    "coordinates stay inside the fixed g96 field (|x| < 1e4 negative, < 1e5 "
    "positive); names / keys contain no whitespace",
    "CP2K: keyword case of template and request agree; at most two "
    "same-titled siblings are addressed (by '->parameters'), sections below "
    "same-titled siblings are never addressed; list data implies "
    "replace=True and dict data replace=False (the documented call forms)",
    "CP2K settings: the first application may either set or append the "
    "requested section parameters, only the second application is judged",
    "LAMMPS write_for_run consumes its variables, so a second application "
    "raises by design; idempotence is not judged for it",
    "engine objects are created with __new__ (no MD program, no input "
    "directory); only the codec methods are called",
]
MUST_REACH = [
    "g96_read", "g96_write", "g96_reverse", "xyz_write", "xyz_read",
    "xyz_frame_k", "xyz_reverse", "lammpstrj_read", "lammpstrj_write",
    "lammpstrj_frame_k", "lammpstrj_reverse", "lammpstrj_shift",
    "trr_decode_4way", "trr_frame_k", "swap_integer", "gmx_extract_frame",
    "mdp_edit", "mdp_idempotent", "cp2k_edit", "cp2k_idempotent",
    "lammps_edit", "lammpstrj_stream"]
JOB_TIMEOUT = 1500
# cases per family for one job of scale 1
BASE = {"g96": 28, "xyz": 22, "lammpstrj": 12, "lammpsstream": 10, "trr": 16,
        "gmxframe": 14,
        "mdp": 70, "cp2k": 60, "lammpsin": 70}


def plan(tier, seed):
    rng = random.Random(f"C19-{seed}")
    njobs, scale = (32, 4) if tier == "quick" else (192, 12)
    return [{"seed": rng.randrange(2 ** 31), "scale": scale,
             "hashseed": rng.randrange(1000)} for _ in range(njobs)]


class Rec:
    def __init__(self):
        self.v, self.ev, self.reached = [], Counter(), Counter()
        self.sigs, self.samples, self._pm, self.n = set(), [], Counter(), 0

    def hit(self, mon):
        self.reached[mon] += 1

    def viol(self, mech, what, **lit):
        self.ev["witness:" + mech] += 1
        if self._pm[mech] < 3:
            w = {"mech": mech, "what": what}
            w.update({k: _short(v) for k, v in lit.items()})
            self.v.append(w)
        self._pm[mech] += 1

    def sig(self, fam, text, nontrivial=True):
        self.n += 1
        self.ev["cases_" + fam] += 1
        if nontrivial:
            self.sigs.add(f"{fam}:{zlib.crc32(text.encode()):08x}")


def _short(v):
    if hasattr(v, "tolist"):
        v = v.tolist()
    if isinstance(v, str) and len(v) > 1500:
        return v[:1500] + "...[cut]"
    if isinstance(v, (list, tuple)) and len(v) > 12:
        return list(v[:12]) + ["...[cut]"]
    return v


def _np():
    import numpy as np
    return np


def tol9(x):
    np = _np()
    return 0.5e-9 * (1 + 1e-6) + 8e-16 * np.abs(np.asarray(x, float))


def close(rec, mon, mech, got, exp, tol, **lit):
    """Record one evaluation of monitor `mon`; violation `mech` on mismatch."""
    np = _np()
    rec.hit(mon)
    if got is None or exp is None:
        if got is None and exp is None:
            return True
        rec.viol(mech + "-missing", f"got {type(got).__name__}, expected "
                 f"{type(exp).__name__}", **lit)
        return False
    got, exp = np.asarray(got, float), np.asarray(exp, float)
    if got.shape != exp.shape:
        rec.viol(mech + "-shape", f"shape {got.shape} != {exp.shape}", **lit)
        return False
    bad = ~(np.abs(got - exp) <= tol)
    if bad.any():
        idx = tuple(int(j) for j in np.argwhere(bad)[0])
        rec.viol(mech, f"{int(bad.sum())} of {bad.size} values differ, first "
                 f"at {idx}: got {got[idx]!r} expected {exp[idx]!r}", **lit)
        return False
    return True


def same(rec, mon, mech, got, exp, **lit):
    rec.hit(mon)
    if got != exp:
        rec.viol(mech, f"got {_short(got)!r} expected {_short(exp)!r}", **lit)
        return False
    return True


def call(rec, mech, fn, *a, **lit):
    """Run a real function on an in-domain input; an exception is a witness."""
    try:
        return True, fn(*a)
    except Exception as exc:  # noqa: BLE001
        rec.viol(f"{mech}-raised-{type(exc).__name__}",
                 f"{getattr(fn, '__name__', fn)} raised "
                 f"{type(exc).__name__}: {exc}", **lit)
        return False, None


# ------------------------------------------------------------- generators

from vf.oracles.gen19 import (cp2k_case, dec9, lammps_case,  # noqa: E402
                              mdp_case, natoms, reals, trr_frames,
                              WORDS, CP_PARAMS)


def text_of(path):
    with open(path, encoding="utf-8") as fh:
        return fh.read()


def put(path, text):
    with open(path, "w", encoding="utf-8") as fh:
        fh.write(text)


# ------------------------------------------------------------------ g96

def fam_g96(rec, rng, d, i):
    np = _np()
    from infretis.classes.engines import gromacs as G
    from vf.oracles import codecs19 as O
    n, cls = natoms(rng), str(rng.choice(["small", "mid", "edge"],
                                         p=[.5, .3, .2]))
    nbox = int(rng.choice([3, 9]))
    red = rng.random() < 0.08
    has_vel = rng.random() < 0.9
    title = [" ".join(rng.choice(WORDS, size=3)) for _ in
             range(int(rng.integers(1, 3)))]
    pre = [O.g96_prefix(int(rng.integers(1, 99999)), str(rng.choice(WORDS)),
                        str(rng.choice(WORDS)), j + 1) for j in range(n)]
    pos = dec9(rng, (n, 3), cls)
    box = np.abs(dec9(rng, nbox, "mid" if cls == "edge" else cls))
    # velocities must stay inside the field after negation as well
    vel = dec9(rng, (n, 3), cls.replace("edge", "vedge")) if has_vel else None
    f0 = os.path.join(d, f"g{i}.g96")
    text = O.g96_text(title, pre, pos, vel, box, red=red)
    put(f0, text)
    rec.sig("g96", text)
    rec.ev[f"g96_{cls}"] += 1
    rec.ev[f"g96_box{nbox}"] += 1
    rec.ev["g96_reduced_blocks"] += red
    rec.ev["g96_no_velocity_block"] += not has_vel
    rec.ev["g96_field_full_width"] += bool(
        (np.abs(pos) >= 1000).any() and (pos <= -1000).any())
    lit = {"file": text, "natoms": n}
    ok, out = call(rec, "g96-read", G.read_gromos96_file, f0, **lit)
    if not ok:
        return
    raw, xyz, v, b = out
    close(rec, "g96_read", "g96-read-pos", xyz, pos, 0, **lit)
    close(rec, "g96_read", "g96-read-vel", v,
          vel if has_vel else np.zeros((n, 3)), 0, **lit)
    close(rec, "g96_read", "g96-read-box", b, box, 0, **lit)
    same(rec, "g96_read", "g96-read-title",
         [t.rstrip() for t in raw["TITLE"]], title, **lit)
    if red:
        return
    same(rec, "g96_read", "g96-read-identity", list(raw["POSITION"]), pre,
         **lit)
    if has_vel:
        same(rec, "g96_read", "g96-read-identity", list(raw["VELOCITY"]),
             pre, **lit)
    # real writer, arbitrary doubles, then independent parser + real reader
    raw2 = copy.deepcopy(raw)
    if not has_vel:
        raw2["VELOCITY"] = list(raw2["POSITION"])  # as GromacsEngine does
    xyz2, vel2 = reals(rng, (n, 3), cls), reals(rng, (n, 3), cls)
    box2 = np.abs(reals(rng, int(rng.choice([3, 9])), cls))
    keep_box = rng.random() < 0.15
    f1 = os.path.join(d, f"g{i}w.g96")
    lit2 = {"natoms": n, "xyz_head": xyz2[:3], "vel_head": vel2[:3],
            "box": box2, "raw_position_head": pre[:3]}
    ok, _ = call(rec, "g96-write", G.write_gromos96_file, f1, raw2, xyz2,
                 vel2, None if keep_box else
                 (box2 if rng.random() < 0.5 else box2.tolist()), **lit2)
    if not ok:
        return
    want_box = box if keep_box else box2
    mine = O.g96_parse(f1)
    ok2, back = call(rec, "g96-read", G.read_gromos96_file, f1, **lit2)
    views = [("parsed", mine["pos"], mine["vel"], mine["box"],
              mine["prefix"], mine["vprefix"], mine["title"])]
    if ok2:
        views.append(("reread", back[1], back[2], back[3],
                      list(back[0]["POSITION"]), list(back[0]["VELOCITY"]),
                      [t.rstrip() for t in back[0]["TITLE"]]))
    for tag, p, vv, bb, pr, vpr, tt in views:
        close(rec, "g96_write", f"g96-write-{tag}-pos", p, xyz2, tol9(xyz2),
              **lit2)
        close(rec, "g96_write", f"g96-write-{tag}-vel", vv, vel2, tol9(vel2),
              **lit2)
        close(rec, "g96_write", f"g96-write-{tag}-box", bb, want_box,
              tol9(want_box), **lit2)
        same(rec, "g96_write", f"g96-write-{tag}-identity", (pr, vpr),
             (pre, pre), **lit2)
        same(rec, "g96_write", f"g96-write-{tag}-title", tt, title, **lit2)
    # reversing velocities: only the sign of the velocities changes
    eng = G.GromacsEngine.__new__(G.GromacsEngine)
    eng.ext = "g96"
    src = f0 if rng.random() < 0.5 else f1
    f2 = os.path.join(d, f"g{i}r.g96")
    a = O.g96_parse(src)
    litr = {"file": text_of(src), "natoms": n}
    ok, _ = call(rec, "g96-reverse", eng._reverse_velocities, src, f2, **litr)
    if ok:
        bpar = O.g96_parse(f2)
        close(rec, "g96_reverse", "g96-reverse-pos-changed", bpar["pos"],
              a["pos"], 0, **litr)
        if a["vel"] is not None:
            close(rec, "g96_reverse", "g96-reverse-vel-not-negated",
                  bpar["vel"], -a["vel"], 0, **litr)
        close(rec, "g96_reverse", "g96-reverse-box-changed", bpar["box"],
              a["box"], 0, **litr)
        same(rec, "g96_reverse", "g96-reverse-identity-changed",
             (bpar["prefix"], bpar["title"]), (a["prefix"], a["title"]),
             **litr)
    for f in (f0, f1, f2):
        if os.path.exists(f):
            os.remove(f)
    if n <= 2 and len(rec.samples) < 1:
        rec.samples.append({"family": "g96", "file": text})


# ------------------------------------------------------------------ xyz

def fam_xyz(rec, rng, d, i):
    np = _np()
    from infretis.classes.engines import engineparts as E
    from infretis.classes.engines.cp2k import CP2KEngine
    from vf.oracles import codecs19 as O
    n, cls = natoms(rng), str(rng.choice(["small", "mid", "edge"]))
    nfr = int(rng.integers(1, 6))
    nbox = [None, 3, 9][int(rng.integers(0, 3))]
    names = [str(x) for x in rng.choice(WORDS, size=n)]
    frames = []
    for j in range(nfr):
        frames.append({
            "names": names, "pos": reals(rng, (n, 3), cls),
            "vel": reals(rng, (n, 3), "small"),
            "box": None if nbox is None else np.abs(reals(rng, nbox, "mid")),
            "step": None if rng.random() < 0.3 else int(rng.integers(0, 9999))
        })
    anon = rng.random() < 0.05
    f0 = os.path.join(d, f"x{i}.xyz")
    if os.path.exists(f0):
        os.remove(f0)
    lit = {"natoms": n, "nframes": nfr, "names_head": names[:4],
           "pos0_head": frames[0]["pos"][:3], "box0": frames[0]["box"]}
    for j, fr in enumerate(frames):
        ok, _ = call(rec, "xyz-write", E.write_xyz_trajectory, f0, fr["pos"],
                     fr["vel"], None if anon else names, fr["box"],
                     fr["step"], j > 0, **lit)
        if not ok:
            return
    text = text_of(f0)
    rec.sig("xyz", text)
    rec.ev[f"xyz_box{nbox}"] += 1
    rec.ev["xyz_multiframe"] += nfr > 1
    wnames = ["X"] * n if anon else names
    boxtol = 0.5e-4 * (1 + 1e-6)

    def compare(mon, tag, got, ref, ptol, btol, lit):
        """got / ref: (names, pos, vel, box)."""
        same(rec, mon, f"xyz-{tag}-names", list(got[0]), list(ref[0]), **lit)
        close(rec, mon, f"xyz-{tag}-pos", got[1], ref[1], ptol(ref[1]),
              **lit)
        close(rec, mon, f"xyz-{tag}-vel", got[2], ref[2], ptol(ref[2]),
              **lit)
        close(rec, mon, f"xyz-{tag}-box", got[3], ref[3], btol, **lit)

    mine = O.xyz_parse(f0)
    ok, snaps = call(rec, "xyz-read", lambda p: [
        E.convert_snapshot(s) for s in E.read_xyz_file(p)], f0, file=text)
    same(rec, "xyz_write", "xyz-write-frame-count",
         (len(mine), len(snaps) if ok else None), (nfr, nfr if ok else None),
         **lit)
    for j, fr in enumerate(frames[:len(mine)]):
        ref = (wnames, fr["pos"], fr["vel"], fr["box"])
        m = mine[j]
        compare("xyz_write", "write-parsed",
                (m["names"], m["pos"], m["vel"], m["box"]), ref, tol9,
                boxtol, lit)
        if ok and j < len(snaps):
            bx, px, vx, nx = snaps[j]
            compare("xyz_write", "write-reread", (nx, px, vx, bx), ref, tol9,
                    boxtol, lit)
    # independent writer -> real reader (exact: repr floats)
    with_vel = rng.random() < 0.8
    f1 = os.path.join(d, f"x{i}m.xyz")
    fr1 = [dict(fr, vel=fr["vel"] if with_vel else None) for fr in frames]
    text1 = O.xyz_text(fr1, style=int(rng.integers(0, 6)))
    put(f1, text1)
    lit1 = {"file": text1, "natoms": n}
    ok, snaps = call(rec, "xyz-read", lambda p: [
        E.convert_snapshot(s) for s in E.read_xyz_file(p)], f1, **lit1)
    if ok:
        same(rec, "xyz_read", "xyz-read-frame-count", len(snaps), nfr, **lit1)
        for j, (bx, px, vx, nx) in enumerate(snaps[:nfr]):
            fr = frames[j]
            compare("xyz_read", "read", (nx, px, vx, bx),
                    (names, fr["pos"], fr["vel"] if with_vel else
                     np.zeros((n, 3)), fr["box"]), lambda x: 0, 0, lit1)
    # frame k / reverse / read_configuration through the CP2K engine
    eng = CP2KEngine.__new__(CP2KEngine)
    src = f0 if rng.random() < 0.6 else f1
    ref = O.xyz_parse(src)
    k = int(rng.integers(0, nfr))
    fo = os.path.join(d, f"x{i}o.xyz")
    lits = {"file": text_of(src), "frame": k, "natoms": n}

    def refv(fr):
        return (fr["names"], fr["pos"], fr["vel"] if fr["vel"] is not None
                else np.zeros((n, 3)), fr["box"])
    ok, _ = call(rec, "xyz-extract", eng._extract_frame, src, k, fo, **lits)
    if ok:
        got = O.xyz_parse(fo)
        same(rec, "xyz_frame_k", "xyz-extract-frame-count", len(got), 1,
             **lits)
        if got:
            g = got[0]
            compare("xyz_frame_k", "extract",
                    (g["names"], g["pos"], g["vel"], g["box"]),
                    refv(ref[k]), tol9, boxtol, lits)
        rec.ev["xyz_frame_k_nonzero"] += k > 0
    ok, _ = call(rec, "xyz-reverse", eng._reverse_velocities, src, fo, **lits)
    if ok:
        g = O.xyz_parse(fo)[0]
        r0 = refv(ref[0])
        compare("xyz_reverse", "reverse",
                (g["names"], g["pos"], g["vel"], g["box"]),
                (r0[0], r0[1], -r0[2], r0[3]), tol9, boxtol, lits)
    ok, out = call(rec, "xyz-readconf", eng._read_configuration, src, **lits)
    if ok:
        compare("xyz_read", "readconf", (out[3], out[0], out[1], out[2]),
                refv(ref[0]), lambda x: 0, 0, lits)
    for f in (f0, f1, fo):
        if os.path.exists(f):
            os.remove(f)
    if n <= 2 and nfr <= 2 and len(rec.samples) < 2:
        rec.samples.append({"family": "xyz", "file": text})


# ------------------------------------------------------------ lammpstrj

def fam_lammpstrj(rec, rng, d, i):
    np = _np()
    from infretis.classes.engines import lammps as L
    from vf.oracles import codecs19 as O
    n, nfr = natoms(rng, lo=2), int(rng.integers(1, 5))
    idkind = str(rng.choice(["sorted", "shuffled", "sparse"], p=[.2, .5, .3]))
    tri = rng.random() < 0.3
    frames = []
    for j in range(nfr):
        ids = np.arange(1, n + 1)
        if idkind == "sparse":
            ids = rng.choice(np.arange(1, 50 * n), size=n, replace=False)
        if idkind != "sorted":
            ids = rng.permutation(ids)
        lo = rng.uniform(-20, 20, size=3) * (rng.random() < 0.7)
        box = np.column_stack([lo, lo + rng.uniform(5, 60, size=3)])
        if tri:
            box = np.column_stack([box, rng.uniform(-3, 3, size=3)])
        frames.append({
            "ids": ids, "types": rng.integers(1, 7, size=n), "box": box,
            "pos": reals(rng, (n, 3), "mid"),
            "vel": reals(rng, (n, 3), "small") *
            10.0 ** rng.integers(-6, 1), "step": int(rng.integers(0, 10 ** 6))})
    trailing, style = bool(rng.random() < 0.6), int(rng.integers(0, 3))
    f0 = os.path.join(d, f"l{i}.lammpstrj")
    text = O.lammpstrj_text(frames, trailing_id=trailing, style=style)
    put(f0, text)
    rec.sig("lammpstrj", text)
    rec.ev[f"lammpstrj_ids_{idkind}"] += 1
    rec.ev["lammpstrj_triclinic_bounds"] += tri
    rec.ev["lammpstrj_trailing_id_column"] += trailing
    rec.ev["lammpstrj_multiframe"] += nfr > 1

    def srt(fr):
        o = np.argsort(fr["ids"])
        return (np.column_stack([fr["ids"][o], fr["types"][o]]),
                fr["pos"][o], fr["vel"][o], fr["box"])

    def compare(mon, tag, got, ref, lit):
        for name, g, r in zip(("ids-types", "pos", "vel", "box"), got, ref):
            close(rec, mon, f"lammpstrj-{tag}-{name}", g, r, 0, **lit)

    lit = {"file": text, "natoms": n}
    for k in range(nfr):
        ok, out = call(rec, "lammpstrj-read", L.read_lammpstrj, f0, k, n,
                       frame=k, **lit)
        if ok:
            compare("lammpstrj_read", "read", out, srt(frames[k]),
                    dict(lit, frame=k))
    # real writer (frames appended) -> independent parser, real reader
    f1 = os.path.join(d, f"l{i}w.lammpstrj")
    as_int = rng.random() < 0.5
    lit1 = {"natoms": n, "nframes": nfr, "ids_head": frames[0]["ids"][:6],
            "pos0_head": frames[0]["pos"][:2], "box0": frames[0]["box"]}
    for j, fr in enumerate(frames):
        idt = np.column_stack([fr["ids"], fr["types"]])
        idt = idt.astype(int) if as_int else idt.astype(float)
        ok, _ = call(rec, "lammpstrj-write", L.write_lammpstrj, f1, idt,
                     fr["pos"].copy(), fr["vel"].copy(), fr["box"].copy(),
                     j > 0, **lit1)
        if not ok:
            return
    mine = O.lammpstrj_parse(f1)
    same(rec, "lammpstrj_write", "lammpstrj-write-frame-count", len(mine),
         nfr, **lit1)
    for j, fr in enumerate(frames[:len(mine)]):
        m = mine[j]
        compare("lammpstrj_write", "write-parsed",
                (np.column_stack([m["ids"], m["types"]]), m["pos"], m["vel"],
                 m["box"]),
                (np.column_stack([fr["ids"], fr["types"]]), fr["pos"],
                 fr["vel"], fr["box"]), lit1)
        ok, out = call(rec, "lammpstrj-read", L.read_lammpstrj, f1, j, n,
                       **lit1)
        if ok:
            compare("lammpstrj_write", "write-reread", out, srt(fr), lit1)
    # engine: frame k, reversal, read_configuration (shifted bounds)
    eng = L.LAMMPSEngine.__new__(L.LAMMPSEngine)
    eng.n_atoms = n
    src = f0 if rng.random() < 0.6 else f1
    k = int(rng.integers(0, nfr))
    fo = os.path.join(d, f"l{i}o.lammpstrj")
    lits = {"file": text_of(src), "frame": k, "natoms": n}

    def parsed(path):
        m = O.lammpstrj_parse(path)
        return len(m), (np.column_stack([m[0]["ids"], m[0]["types"]]),
                        m[0]["pos"], m[0]["vel"], m[0]["box"])
    ok, _ = call(rec, "lammpstrj-extract", eng._extract_frame, src, k, fo,
                 **lits)
    if ok:
        cnt, got = parsed(fo)
        same(rec, "lammpstrj_frame_k", "lammpstrj-extract-frame-count", cnt,
             1, **lits)
        compare("lammpstrj_frame_k", "extract", got, srt(frames[k]), lits)
        rec.ev["lammpstrj_frame_k_nonzero"] += k > 0
    ok, _ = call(rec, "lammpstrj-reverse", eng._reverse_velocities, src, fo,
                 **lits)
    if ok:
        r = srt(frames[0])
        compare("lammpstrj_reverse", "reverse", parsed(fo)[1],
                (r[0], r[1], -r[2], r[3]), lits)
    if not tri:
        ok, out = call(rec, "lammpstrj-readconf", eng._read_configuration,
                       src, **lits)
        if ok:
            r = srt(frames[0])
            close(rec, "lammpstrj_shift", "lammpstrj-shift-pos", out[0],
                  r[1] - r[3][:, 0], 0, **lits)
            close(rec, "lammpstrj_shift", "lammpstrj-shift-vel", out[1],
                  r[2], 0, **lits)
            close(rec, "lammpstrj_shift", "lammpstrj-shift-box", out[2],
                  r[3][:, 1] - r[3][:, 0], 0, **lits)
    for f in (f0, f1, fo):
        if os.path.exists(f):
            os.remove(f)
    if n <= 3 and nfr == 1 and len(rec.samples) < 2:
        rec.samples.append({"family": "lammpstrj", "file": text})


# ------------------------------------------------------------------ TRR

class _Crit(logging.Handler):
    def __init__(self):
        super().__init__(level=logging.ERROR)
        self.msgs = []

    def emit(self, record):
        self.msgs.append(record.getMessage())


VARIANTS = [(">", False), (">", True), ("<", False), ("<", True)]


def fam_trr(rec, rng, d, i):
    from infretis.classes.engines import gromacs as G
    from vf.oracles import codecs19 as O
    n, nfr = natoms(rng), int(rng.integers(1, 5))
    frames = trr_frames(rng, n, nfr, always=("x",) if rng.random() < 0.3
                        else ("box", "x"))
    blocks = ("box", "vir", "pres", "x", "v", "f")
    desc = f"n={n} frames=" + ";".join(
        ",".join(k for k in blocks if fr[k] is not None) for fr in frames)
    rec.sig("trr", desc + repr(frames[0]["x"][:2].tolist()))
    grab = _Crit()
    G.logger.addHandler(grab)
    good = 0
    try:
        for endian, double in VARIANTS:
            f0 = os.path.join(d, f"t{i}.trr")
            with open(f0, "wb") as fh:
                fh.write(O.trr_bytes(frames, endian, double))
            lit = {"layout": desc, "endian": endian, "double": double,
                   "x0_head": frames[0]["x"][:2]}
            rec.ev[f"trr_files_{'le' if endian == '<' else 'be'}_"
                   f"{'double' if double else 'single'}"] += 1
            allok = True
            for k in range(nfr + 1):
                ok, out = call(rec, "trr-read", G.read_trr_frame, f0, k,
                               frame=k, **lit)
                if not ok:
                    allok = False
                    continue
                hdr, data = out
                if k == nfr:
                    allok &= same(rec, "trr_frame_k", "trr-frame-past-end",
                                  (hdr, data), (None, None), frame=k, **lit)
                    continue
                fr = frames[k]
                if hdr is None:
                    rec.hit("trr_frame_k")
                    rec.viol("trr-frame-not-found", f"frame {k} of {nfr} "
                             "reported missing", frame=k, **lit)
                    allok = False
                    continue
                allok &= same(
                    rec, "trr_frame_k", "trr-header",
                    (hdr["natoms"], hdr["step"], hdr["time"], hdr["lambda"],
                     hdr["double"]),
                    (n, fr["step"], fr["time"], fr["lam"], double),
                    frame=k, **lit)
                allok &= same(rec, "trr_frame_k", "trr-blocks-present",
                              sorted(data), sorted(
                                  b for b in blocks if fr[b] is not None),
                              frame=k, **lit)
                for b in blocks:
                    if fr[b] is not None and b in data:
                        allok &= close(rec, "trr_frame_k", f"trr-frame-{b}",
                                       data[b], fr[b], 0, frame=k, **lit)
            # sequential decoding of the whole file
            with open(f0, "rb") as fh:
                ok, seq = call(rec, "trr-read", lambda h: list(
                    G.read_remaining_trr(f0, h, 0)), fh, **lit)
            if ok:
                allok &= same(rec, "trr_frame_k", "trr-sequential-count",
                              len(seq), nfr, **lit)
                for (hdr, data, nbytes), fr in zip(seq, frames):
                    allok &= close(rec, "trr_frame_k", "trr-sequential-x",
                                   data.get("x"), fr["x"], 0, **lit)
                if seq:
                    allok &= same(rec, "trr_frame_k", "trr-sequential-bytes",
                                  seq[-1][2], os.path.getsize(f0), **lit)
            else:
                allok = False
            good += allok
            os.remove(f0)
    finally:
        G.logger.removeHandler(grab)
    rec.hit("trr_decode_4way")
    if good != 4:
        rec.ev["trr_4way_mismatch"] += 1
    if grab.msgs:
        rec.viol("trr-valid-file-reported-inconsistent",
                 f"reader logged: {grab.msgs[0]}", layout=desc)
    # the byte-swapping helpers against struct
    for val in [1993, -922288128] + [int(x) for x in
                                     rng.integers(-2 ** 31, 2 ** 31, size=4)]:
        rec.hit("swap_integer")
        got = G.swap_integer(val)
        if got & 0xFFFFFFFF != O.byteswap32(val) or not 0 <= got < 2 ** 32:
            rec.viol("trr-swap-integer-not-a-byte-swap",
                     f"swap_integer({val}) = {got}, byte-reversed pattern is "
                     f"{O.byteswap32(val)}", value=val)
    same(rec, "swap_integer", "trr-swap-endian",
         (G.swap_endian("<"), G.swap_endian(">")), (">", "<"))


def fam_gmxframe(rec, rng, d, i):
    """GromacsEngine._extract_frame: frame k of a .trr as a .g96."""
    from infretis.classes.engines import gromacs as G
    from vf.oracles import codecs19 as O
    n, nfr = natoms(rng), int(rng.integers(1, 5))
    pre = [O.g96_prefix(j // 3 + 1, str(rng.choice(WORDS)),
                        str(rng.choice(WORDS)), j + 1) for j in range(n)]
    conf = os.path.join(d, f"c{i}.g96")
    conf_vel = rng.random() < 0.5
    put(conf, O.g96_text(["conf"], pre, dec9(rng, (n, 3), "small"),
                         dec9(rng, (n, 3), "small") if conf_vel else None,
                         [3.0, 3.0, 3.0]))
    eng = G.GromacsEngine.__new__(G.GromacsEngine)
    eng.ext = "g96"
    eng.top, _, _, _ = G.read_gromos96_file(conf)
    eng.top["VELOCITY"] = eng.top["POSITION"].copy()   # as __init__ does
    frames = trr_frames(rng, n, nfr)
    endian, double = VARIANTS[int(rng.integers(0, 4))]
    trr = os.path.join(d, f"c{i}.trr")
    with open(trr, "wb") as fh:
        fh.write(O.trr_bytes(frames, endian, double))
    k = int(rng.integers(0, nfr))
    fr = frames[k]
    out = os.path.join(d, f"c{i}o.g96")
    lit = {"natoms": n, "nframes": nfr, "frame": k, "endian": endian,
           "double": double, "x_head": fr["x"][:2], "box": fr["box"],
           "has_v": fr["v"] is not None}
    rec.sig("gmxframe", repr((n, nfr, k, endian, double,
                              fr["x"][:2].tolist())))
    rec.ev["gmxframe_k_nonzero"] += k > 0
    rec.ev["gmxframe_without_velocities"] += fr["v"] is None
    ok, _ = call(rec, "gmxframe", eng._extract_frame, trr, k, out, **lit)
    if ok:
        g = O.g96_parse(out)
        m = fr["box"]
        want_box = [m[0, 0], m[1, 1], m[2, 2], m[0, 1], m[0, 2], m[1, 0],
                    m[1, 2], m[2, 0], m[2, 1]]
        close(rec, "gmx_extract_frame", "gmxframe-pos", g["pos"], fr["x"],
              tol9(fr["x"]), **lit)
        if fr["v"] is not None:
            close(rec, "gmx_extract_frame", "gmxframe-vel", g["vel"],
                  fr["v"], tol9(fr["v"]), **lit)
        close(rec, "gmx_extract_frame", "gmxframe-box", g["box"], want_box,
              tol9(want_box), **lit)
        same(rec, "gmx_extract_frame", "gmxframe-identity", g["prefix"], pre,
             **lit)
    # a .g96 "trajectory" is copied
    ok, _ = call(rec, "gmxframe", eng._extract_frame, conf, 0, out, **lit)
    if ok:
        same(rec, "gmx_extract_frame", "gmxframe-g96-copy-differs",
             text_of(out), text_of(conf), **lit)
    for f in (conf, trr, out):
        if os.path.exists(f):
            os.remove(f)


# ------------------------------------------------------------------ mdp

def fam_mdp(rec, rng, d, i):
    from infretis.classes.engines.enginebase import EngineBase
    from vf.oracles import templates19 as T
    case = mdp_case(rng)
    text, lines, keys, settings = (case[k] for k in (
        "text", "lines", "keys", "settings"))
    present, absent, no_newline = (case[k] for k in (
        "present", "absent", "no_newline"))
    src, out, out2 = (os.path.join(d, f"m{i}{s}.mdp") for s in "abc")
    rec.sig("mdp", text + repr(sorted(settings.items(), key=str)),
            len(present) + len(absent) >= 1 and len(keys) > len(present))
    rec.ev["mdp_requested_existing"] += len(present)
    rec.ev["mdp_requested_new"] += len(absent)
    rec.ev["mdp_template_without_final_newline"] += no_newline
    rec.ev["mdp_repeated_key_templates"] += len(
        {k for k, _ in T.mdp_entries(text)}) < len(T.mdp_entries(text))
    want = {k: str(v).strip() for k, v in settings.items()}

    def judge(template, count):
        """-> (witness list, first output) for one template text."""
        wits, lit = [], {"template": template, "settings": settings}
        put(src, template)
        EngineBase._modify_input(src, out, dict(settings), delim="=")
        res = text_of(out)
        before, after = T.mdp_entries(template), T.mdp_entries(res)
        rec.reached["mdp_edit"] += count
        bad = [k for k in want if [v for kk, v in after if kk == k] == [] or
               any(v != want[k] for kk, v in after if kk == k)]
        if bad:
            wits.append(("mdp-requested-entry-not-set", f"keys {bad} do not "
                         "carry the requested value", dict(lit, output=res)))
        keep_b = [(k, v) for k, v in before if k not in want]
        keep_a = [(k, v) for k, v in after if k not in want]
        if keep_a != keep_b:
            wits.append(("mdp-unrequested-entry-changed", "entries outside "
                         f"the request: {keep_b} -> {keep_a}",
                         dict(lit, output=res)))
        seen = EngineBase._read_input_settings(out)   # the repo's own reader
        miss = [k for k in want if seen.get(k) != want[k]]
        if miss and not bad:
            wits.append(("mdp-read-input-settings-disagree",
                         f"_read_input_settings gives "
                         f"{[seen.get(k) for k in miss]} for {miss}",
                         dict(lit, output=res)))
        EngineBase._modify_input(out, out2, dict(settings), delim="=")
        again = text_of(out2)
        rec.reached["mdp_idempotent"] += count
        rec.ev["mdp_second_application_byte_identical"] += count * (
            again == res)
        if T.mdp_entries(again) != after:
            wits.append(("mdp-not-idempotent", "second application changes "
                         "the entries", dict(lit, first=res, second=again)))
        return wits, res

    try:
        wits, res = judge(text, 1)
        if wits and no_newline and not judge(text + "\n", 0)[0]:
            # differential diagnosis: the same template with a terminated
            # last line is edited correctly
            wits = [("mdp-new-key-glued-to-unterminated-last-line",
                     "template without final newline: " + w[1], w[2])
                    for w in wits[:1]]
    except Exception as exc:  # noqa: BLE001
        rec.viol(f"mdp-edit-raised-{type(exc).__name__}", repr(exc),
                 template=text, settings=settings)
        return
    for mech, what, lit in wits:
        rec.viol(mech, what, **lit)
    if len(rec.samples) < 2 and len(lines) < 6:
        rec.samples.append({"family": "mdp", "template": text,
                            "settings": settings, "output": res})


# ----------------------------------------------------------------- CP2K

def fam_cp2k(rec, rng, d, i):
    from infretis.classes.engines import cp2k as C
    from vf.oracles import templates19 as T
    case = cp2k_case(rng)
    text, addr, update, remove = (case[k] for k in (
        "text", "addr", "update", "remove"))
    src, out, out2 = (os.path.join(d, f"k{i}{s}.inp") for s in "abc")
    put(src, text)
    lit = {"template": text, "update": update, "remove": remove}
    rec.sig("cp2k", text + repr(update) + repr(remove),
            bool(update) and len(addr) > len(update))
    for tgt, val in update.items():
        kind = "dict" if isinstance(val["data"], dict) else "list_replace"
        rec.ev[f"cp2k_targets_{kind}"] += 1
        rec.ev["cp2k_targets_with_settings"] += "settings" in val
        rec.ev["cp2k_targets_in_same_titled_pair"] += "->" in tgt and \
            tgt.split("->")[-1] in CP_PARAMS
    rec.ev["cp2k_removals"] += len(remove)
    base = T.cp2k_parse(text)
    exp, info = T.cp2k_apply(base, update, remove)
    rec.ev["cp2k_targets_created"] += sum(v["created"] for v in info.values())
    ok, _ = call(rec, "cp2k-edit", C.update_cp2k_input, src, out,
                 copy.deepcopy(update), list(remove), **lit)
    if not ok:
        return
    res = text_of(out)
    try:
        got = T.cp2k_parse(res)
    except (ValueError, IndexError) as exc:
        rec.viol("cp2k-output-not-a-section-tree", str(exc), output=res, **lit)
        return

    def target_of(node, table):
        for tgt, inf in table.items():
            if inf["node"] is node:
                return tgt, inf
        return None, None

    def lost_values(val, lines):
        return (isinstance(val["data"], dict) and
                any(v is not None for v in val["data"].values()) and
                lines == [str(k) for k in val["data"]])

    def none_text(val, e_lines, g_lines):
        nk = [k for k, v in val["data"].items() if v is None] \
            if isinstance(val["data"], dict) else []


        def bare(lines):
            return sorted(ln[:-5] if ln[:-5] in nk and ln.endswith(" None")
                          else ln for ln in lines)
        return nk and bare(e_lines) == bare(g_lines)

    rec.hit("cp2k_edit")
    addressing_lost = False
    for path, kind, e, g in T.cp2k_diff(exp, got):
        tgt, inf = target_of(e, info)
        val = update.get(tgt, {})
        wit = dict(lit, output=res, section=path,
                   expected=None if e is None else [e.params, e.lines],
                   got=None if g is None else [g.params, g.lines])
        if kind == "lines-order" and tgt and isinstance(val["data"], dict):
            rec.ev["cp2k_edited_lines_reordered_ok"] += 1
        elif kind == "params" and tgt and val.get("settings") and \
                not val.get("replace") and \
                g.params == inf["old_params"] + val["settings"]:
            rec.ev["cp2k_settings_appended_on_first_application"] += 1
        elif kind == "params" and tgt and val.get("replace") and \
                not val.get("settings") and g.params == [] and \
                inf["old_params"]:
            rec.viol("cp2k-replace-clears-section-parameters",
                     f"{path}: replace=True without settings turns "
                     f"'&{e.title} {' '.join(e.params)}' into '&{e.title}'",
                     **wit)
            addressing_lost |= "->" + " ".join(e.params) in "->" + tgt
        elif kind == "lines" and tgt and inf["created"] and \
                lost_values(val, g.lines):
            rec.viol("cp2k-new-section-loses-values",
                     f"section {path} is created by the update; its data "
                     f"{val['data']} is written as {g.lines}", **wit)
        elif kind == "lines" and tgt and none_text(val, e.lines, g.lines):
            rec.viol("cp2k-none-value-written-as-text-None",
                     f"{path}: a keyword requested without value that is "
                     f"already present becomes '<KEY> None'", **wit)
        elif kind == "extra" and any(
                T._find(base, r)[0] is not None and
                r.split("->")[0] == path.split("->")[0] and
                g.title in r.split("->") for r in remove):
            rec.viol("cp2k-removed-section-still-present",
                     f"{path} was to be removed", **wit)
        else:
            who = "requested" if tgt else "unrequested"
            rec.viol(f"cp2k-{who}-section-{kind}",
                     f"{who} section {path}: {kind} differ from the "
                     "reference edit", **wit)
    # second application on the output
    if addressing_lost:   # '->parameters' address destroyed by the edit
        rec.ev["cp2k_second_application_skipped_address_lost"] += 1
        return
    ok, _ = call(rec, "cp2k-edit", C.update_cp2k_input, out, out2,
                 copy.deepcopy(update), list(remove), **lit)
    if not ok:
        return
    res2 = text_of(out2)
    got2 = T.cp2k_parse(res2)
    in_got = {}
    for tgt, val in update.items():
        node, _, _ = T._find(got, tgt)
        in_got[tgt] = {"node": node}
    rec.hit("cp2k_idempotent")
    for path, kind, e, g in T.cp2k_diff(got, got2):
        tgt, _ = target_of(e, in_got) if e is not None else (None, None)
        val = update.get(tgt, {})
        wit = dict(lit, first=res, second=res2, section=path,
                   after_first=None if e is None else [e.params, e.lines],
                   after_second=None if g is None else [g.params, g.lines])
        if kind == "lines-order":
            continue
        if kind == "params" and tgt and val.get("settings") and \
                not val.get("replace") and \
                g.params == e.params + val["settings"]:
            rec.viol("cp2k-settings-appended-on-reapply",
                     f"{path}: parameters {e.params} -> {g.params} on the "
                     "second application", **wit)
        elif kind == "lines" and tgt and info[tgt]["created"] and \
                lost_values(val, e.lines):
            rec.viol("cp2k-new-section-loses-values",
                     f"{path}: values missing after the first application "
                     "appear with the second", **wit)
        elif kind == "lines" and tgt and none_text(val, e.lines, g.lines):
            rec.viol("cp2k-none-value-written-as-text-None",
                     f"{path}: bare keyword becomes '<KEY> None' on the "
                     "second application", **wit)
        else:
            rec.viol(f"cp2k-not-idempotent-{kind}",
                     f"{path}: {kind} change on the second application",
                     **wit)
    if len(rec.samples) < 2 and len(text) < 500:
        rec.samples.append({"family": "cp2k", "template": text,
                            "update": update, "remove": remove,
                            "output": res})


# ------------------------------------------------ LAMMPS input variables

def fam_lammpsin(rec, rng, d, i):
    from infretis.classes.engines.lammps import write_for_run
    from vf.oracles import templates19 as T
    case = lammps_case(rng)
    text, lines, settings, mode, pick = (case[k] for k in (
        "text", "lines", "settings", "mode", "pick"))
    src, out = os.path.join(d, f"i{i}.in"), os.path.join(d, f"i{i}.out")
    put(src, text)
    rec.sig("lammpsin", text + repr(sorted(settings.items())))
    rec.ev[f"lammpsin_{mode}"] += 1
    lit = {"template": text, "settings": {k: str(v) for k, v in
                                          settings.items()}}
    rec.hit("lammps_edit")
    try:
        write_for_run(src, out, dict(settings))
        err = None
    except Exception as exc:  # noqa: BLE001
        err = exc
    occurrences = {k: len(T.lammps_token_lines(text, k)) for k in settings}
    if mode == "missing":
        if not isinstance(err, ValueError):
            rec.viol("lammps-missing-variable-not-reported",
                     f"{pick} is not in the template; expected ValueError, "
                     f"got {err!r}", **lit)
        return
    if err is not None:
        two = [k for k, c in occurrences.items() if c >= 2]
        if isinstance(err, KeyError) and two and err.args[0] in two:
            rec.viol("lammps-variable-on-two-lines-KeyError",
                     f"{two[0]} occurs on {occurrences[two[0]]} template "
                     f"lines; write_for_run raised KeyError({err.args[0]!r})",
                     **lit)
        else:
            rec.viol(f"lammps-edit-raised-{type(err).__name__}",
                     f"write_for_run raised {err!r}", **lit)
        return
    res, want = text_of(out), T.lammps_expected(text, settings)
    if res != want:
        bad = [(a, b) for a, b in zip(want.split("\n"), res.split("\n"))
               if a != b]
        rec.viol("lammps-output-differs-from-token-substitution",
                 f"first differing line: expected {bad[0][0]!r} got "
                 f"{bad[0][1]!r}" if bad else "line count differs",
                 output=res, **lit)
    if len(rec.samples) < 2 and mode == "once" and len(lines) < 14:
        rec.samples.append({"family": "lammpsin", "template": text,
                            "settings": lit["settings"], "output": res})


def fam_lammpsstream(rec, rng, d, i):
    """The streaming decoder (lammpstrj_reader through ReadAndProcessOnTheFly)
    reading a complete multi-frame dump in ONE call must return every frame
    with exactly the written values (ids 1..n in any order, trailing id)."""
    np = _np()
    from infretis.classes.engines.engineparts import (
        ReadAndProcessOnTheFly, lammpstrj_reader)
    from vf.oracles import codecs19 as O
    n, nfr = natoms(rng, lo=2), int(rng.integers(2, 6))
    frames = []
    for j in range(nfr):
        ids = rng.permutation(np.arange(1, n + 1))
        lo = rng.uniform(-20, 20, size=3) * (rng.random() < 0.7)
        box = np.column_stack([lo, lo + rng.uniform(5, 60, size=3)])
        frames.append({
            "ids": ids, "types": rng.integers(1, 7, size=n), "box": box,
            "pos": reals(rng, (n, 3), "mid"),
            "vel": reals(rng, (n, 3), "small"), "step": j})
    f0 = os.path.join(d, f"ls{i}.lammpstrj")
    with open(f0, "w", encoding="utf-8") as fh:
        fh.write(O.lammpstrj_text(frames, trailing_id=True,
                                  style=int(rng.integers(0, 3))))
    rec.hit("lammpstrj_stream")
    rec.sig("lammpsstream", f"{n}-{nfr}-{frames[0]['pos'][0][0]}")
    reader = ReadAndProcessOnTheFly(f0, lammpstrj_reader)
    try:
        traj, boxes = reader.read_and_process_content()
    except Exception as exc:
        rec.viol("lammpstrj-stream-raised", f"{type(exc).__name__}: {exc}",
                 natoms=n, nframes=nfr)
        return
    if len(traj) != nfr or len(boxes) != nfr:
        rec.viol("lammpstrj-stream-frame-count",
                 f"{len(traj)} frames / {len(boxes)} boxes returned for "
                 f"{nfr} complete frames in the file", natoms=n)
        return
    for k, fr in enumerate(frames):
        order = np.argsort(fr["ids"])
        want = np.column_stack([fr["pos"][order], fr["vel"][order]])
        if not (np.array_equal(np.asarray(traj[k], dtype=float), want)):
            which = [j for j in range(nfr) if np.array_equal(
                np.asarray(traj[k], dtype=float), np.column_stack([
                    frames[j]["pos"][np.argsort(frames[j]["ids"])],
                    frames[j]["vel"][np.argsort(frames[j]["ids"])]]))]
            rec.viol("lammpstrj-stream-frame-k-wrong",
                     f"frame {k} of {nfr} read in one call differs from what "
                     f"was written (equals written frame(s) {which})",
                     natoms=n)
            return
        if not np.array_equal(np.asarray(boxes[k], dtype=float)[:, :2],
                              fr["box"]):
            rec.viol("lammpstrj-stream-box-k-wrong",
                     f"box of frame {k} of {nfr} differs", natoms=n)
            return


FAMILIES = {"g96": fam_g96, "xyz": fam_xyz, "lammpstrj": fam_lammpstrj,
            "lammpsstream": fam_lammpsstream,
            "trr": fam_trr, "gmxframe": fam_gmxframe, "mdp": fam_mdp,
            "cp2k": fam_cp2k, "lammpsin": fam_lammpsin}


def work(job, scratch):
    np = _np()
    logging.disable(logging.NOTSET)
    rec = Rec()
    only = job.get("only")
    for fam, fn in FAMILIES.items():
        if only and fam not in only:
            continue
        # one independent stream per family: widening one family's generator
        # does not shift the cases of the others
        rng = np.random.default_rng([job["seed"], zlib.crc32(fam.encode())])
        for i in range(BASE[fam] * job.get("scale", 1)):
            before = len(rec.v)
            try:
                fn(rec, rng, scratch, i)
            except Exception:  # harness fault: never a verdict
                import traceback
                return {"n": rec.n, "inconclusive": [
                    f"harness error in family {fam} case {i}: "
                    + traceback.format_exc()[-2500:]],
                    "violations": rec.v, "events": dict(rec.ev),
                    "reached": dict(rec.reached), "sigs": sorted(rec.sigs)}
            for w in rec.v[before:]:
                w.setdefault("family", fam)
                w.setdefault("case", i)
    return {"n": rec.n, "sigs": sorted(rec.sigs), "events": dict(rec.ev),
            "violations": rec.v, "samples": rec.samples[:2],
            "reached": dict(rec.reached), "notes": []}
