"""C20 - order parameters respect the symmetries of what they measure.

Direct drive of the real ``infretis.classes.orderparameter`` classes (built
through the real ``create_orderparameter`` factory) with metamorphic pairs:
nothing of the formulas under test is re-implemented, the oracle is the
symmetry law itself.  Every call the classes make to ``pbc_dist_coordinate``
rides through a postcondition (per-axis half-box bound, image congruence).
"""
import importlib.util  # noqa: F401
import itertools
import math
import random

PROPERTY = "C20"
LEVEL = "exploration"
RULE = ("random jobs: a geometry = class (Distance, Distancevel, Dihedral, "
        "Puckering, Position, Velocity) x ordered index choice among k..k+4 "
        "atoms x orthogonal box (L0 log-uniform 0.3..30, aspect 1..3) x "
        "non-degenerate molecule (bond components inside +-(L/2-3%), lengths "
        "and perpendicular parts >= 5% of L0; rings built from Cremer-Pople "
        "amplitudes q2>=0.15R) placed up to 5 boxes from the origin, every "
        "atom moved by integer images in [-3,3]^3.  For each geometry x "
        "periodic flag x box form (3 components as LAMMPS' shift_boxbounds "
        "gives them, 9 components as GROMACS' box_matrix_to_list(full=True) "
        "gives them, None) the laws are evaluated as pairs: translation, "
        "image shift, rotation (free SO(3) when not periodic, the 24 proper "
        "axis permutations with the box permuted when periodic), velocity "
        "reversal (negated array and EngineBase.calculate_order with "
        "vel_rev), box3 vs box9, array snapshots around every calculate. "
        "grid job: exact dyadic grid of pbc_dist_coordinate inputs including "
        "|d| = L/2, L, 3L/2; every ordered index choice x every single-atom "
        "image shift in [-3,3]^3.  Tolerance 1e-9*scale, angles modulo one "
        "turn.  Non-trivial = non-identity transformation and, for periodic "
        "pairs, at least one bond that is wrapped on some axis; distinct = "
        "(law, class, periodic, box form, spectator atoms, wrapped-axes count "
        "per bond before / after).")
ASSUMPTIONS = [
    "orthogonal boxes only (pbc_dist_coordinate documents that); 9-component "
    "form = [xx,yy,zz,0,0,0,0,0,0]",
    "non-degenerate geometries: no bond component within 3% of L/2 (the "
    "minimum image is discontinuous there; exact |d|=L/2 is exercised for "
    "Distance and pbc_dist_coordinate only, where the value is continuous), "
    "dihedral / puckering angles well conditioned",
    "rotation of a periodic system is only a symmetry if it maps the "
    "orthogonal box onto an orthogonal box: axis permutations",
    "Path.reverse is observed (informational counter) but not decided here: "
    "the property is about the return value of calculate()",
]
MUST_REACH = ["translation", "image_shift", "rotation", "velocity_reversal",
              "box_forms", "min_image_bound", "no_mutation"]
JOB_TIMEOUT = 900

ARITY = {"Distance": 2, "Distancevel": 2, "Dihedral": 4, "Puckering": 6,
         "Position": 1, "Velocity": 1}
KINDS = {"Distance": ["len"], "Distancevel": ["rate"], "Dihedral": ["rad"],
         "Puckering": ["deg", "deg", "len"], "Position": ["len"],
         "Velocity": ["rate"]}
BONDS = {"Distance": [(1, 0)], "Distancevel": [(1, 0)],
         "Dihedral": [(0, 1), (1, 2), (3, 2)],
         "Puckering": [(i, 0) for i in range(1, 6)]}
RELATIVE = ("Distance", "Distancevel", "Dihedral", "Puckering")
ROTATABLE = ("Distance", "Dihedral", "Puckering")
VELTYPE = ("Distancevel", "Velocity")
WEIGHTED = ["Distance"] * 3 + ["Distancevel"] * 3 + ["Dihedral"] * 3 + \
    ["Puckering"] * 2 + ["Position", "Velocity"]
MARGIN, FEAT = 0.03, 0.05


def plan(tier, seed):
    rng = random.Random(f"C20-{seed}")
    njobs, count = (42, 400) if tier == "quick" else (240, 1600)
    jobs = [{"kind": "grid", "part": p, "hashseed": 0}
            for p in ("pbc", "half") + RELATIVE]
    for _ in range(njobs):
        jobs.append({"kind": "rand", "seed": rng.randrange(2 ** 31),
                     "count": count, "hashseed": rng.randrange(100)})
    return jobs


class _Rec:
    def __init__(self):
        self.v, self.ev, self.reached, self.sigs = [], {}, {}, set()
        self.samples, self.per_mech = [], {}

    def hit(self, key, n=1):
        self.ev[key] = self.ev.get(key, 0) + n

    def reach(self, key):
        self.reached[key] = self.reached.get(key, 0) + 1

    def viol(self, mech, what, **lit):
        self.per_mech[mech] = self.per_mech.get(mech, 0) + 1
        self.hit("witness:" + mech)
        if self.per_mech[mech] <= 3:
            self.v.append(dict(mech=mech, what=what, **_lit(lit)))


def _lit(obj):
    if isinstance(obj, dict):
        return {k: _lit(v) for k, v in obj.items()}
    return obj.tolist() if hasattr(obj, "tolist") else obj


# --------------------------------------------------------------- harness ---
def _install_spy(rec):
    """Postcondition riding on every real pbc_dist_coordinate call."""
    import infretis.classes.orderparameter as opm
    real = opm.pbc_dist_coordinate

    def spy(distance, box_lengths):
        d0, b0 = [float(x) for x in distance], [float(x) for x in box_lengths]
        out = real(distance, box_lengths)
        rec.reach("min_image_bound")
        o = [float(x) for x in out]
        lit = {"distance": d0, "box_lengths": b0, "out": o}
        if d0 != [float(x) for x in distance] or \
                b0 != [float(x) for x in box_lengths]:
            rec.viol("pbc_dist_coordinate-mutates-argument", "input changed",
                     **lit)
        if len(o) != len(d0) or not all(math.isfinite(x) for x in o):
            rec.viol("pbc_dist_coordinate-bad-shape-or-nonfinite",
                     f"{len(o)} components for {len(d0)}", **lit)
            return out
        for d, x, length in zip(d0, o, b0):
            if x != d:
                rec.hit("pbc_components_wrapped")
            if abs(d) == 0.5 * length:
                rec.hit("pbc_components_exactly_half_box")
            if abs(x) > 0.5 * length * (1 + 1e-12):
                rec.viol("min-image-exceeds-half-box",
                         "a component of the minimum-image vector is larger "
                         "than L/2", **lit)
            k = (d - x) / length
            if abs(k - round(k)) > 1e-9 * max(1.0, abs(k)):
                rec.viol("min-image-not-an-image",
                         "result differs from the input by a non-integer "
                         "number of box lengths", **lit)
        return out

    opm.pbc_dist_coordinate = spy
    return spy


def _mk(cls, index, periodic, dim=0):
    from infretis.classes.orderparameter import create_orderparameter
    st = {"class": cls}
    if cls == "Velocity":
        st.update(index=int(index[0]), dim="xyz"[dim])
    elif cls == "Position":
        st.update(index=[int(index[0]), int(dim)], periodic=False)
    else:
        st.update(index=[int(i) for i in index], periodic=bool(periodic))
    return create_orderparameter({"orderparameter": st})


def _engine(op):
    from infretis.classes.engines.enginebase import EngineBase

    class _Eng(EngineBase):     # only calculate_order (real) is used
        conf = None

        def modify_velocities(self, *a, **k): raise NotImplementedError
        def set_mdrun(self, *a, **k): raise NotImplementedError
        def _extract_frame(self, *a, **k): raise NotImplementedError
        def _propagate_from(self, *a, **k): raise NotImplementedError
        def _reverse_velocities(self, *a, **k): raise NotImplementedError
        def _read_configuration(self, filename): return self.conf

    eng = _Eng("stub", 1.0, 1)
    eng.order_function = op
    return eng


def _form(L, bf):
    """Box in the literal forms the engines hand to calculate_order."""
    import numpy as np
    from infretis.classes.engines.engineparts import box_matrix_to_list
    from infretis.classes.engines.lammps import shift_boxbounds
    if bf == "none":
        return None
    if bf == "box9":
        return box_matrix_to_list(np.diag(L), full=True)
    return shift_boxbounds(np.zeros((1, 3)),
                           np.column_stack([np.zeros(3), L]))[1]


def _calc(rec, c, pos, vel, box, eng=None, vel_rev=False):
    """One real evaluation with array snapshots; None if it raised."""
    import numpy as np
    from infretis.classes.system import System
    s = System()
    s.pos, s.vel, s.box, s.vel_rev = pos, vel, box, vel_rev
    snap = [None if a is None else a.copy() for a in (pos, vel, box)]
    lit = dict(cls=c["cls"], index=c["index"], periodic=c["periodic"],
               boxform=c["bf"], pos=pos, vel=vel, box=box)
    try:
        if eng is None:
            out = c["op"].calculate(s)
        else:
            eng.conf = (pos, vel, None, None)
            out = eng.calculate_order(s, xyz=pos, vel=vel, box=box)
        out = np.array([float(x) for x in out])
    except Exception as exc:  # noqa: BLE001
        per = "periodic" if c["periodic"] else "nonperiodic"
        rec.viol(f"{c['cls']}-{per}-{c['bf']}-raises-{type(exc).__name__}",
                 f"calculate raised {type(exc).__name__}: {exc}", **lit)
        rec.hit(f"raised:{c['cls']}:{c['bf']}")
        return None
    rec.reach("no_mutation")
    for name, a, b in zip(("pos", "vel", "box"), (pos, vel, box), snap):
        if a is not None and not np.array_equal(a, b):
            rec.viol(f"{c['cls']}-mutates-{name}",
                     f"calculate changed the caller's {name} array",
                     before=b, **lit)
    if eng is None and (s.pos is not pos or s.vel is not vel or
                        s.box is not box or s.vel_rev is not vel_rev):
        rec.viol(f"{c['cls']}-rebinds-system-field",
                 "calculate re-assigned a field of the system", **lit)
    if len(out) != len(KINDS[c["cls"]]) or not np.all(np.isfinite(out)):
        rec.viol(f"{c['cls']}-nonfinite-or-wrong-length", f"returned {out}",
                 **lit)
        return None
    return out


def _tols(c, arrays, L, vel):
    import numpy as np
    S = max([1.0, float(np.max(L))] + [float(np.max(np.abs(a)))
                                        for a in arrays])
    cond = max(1.0, S / c["feat"])
    vmax = max(1.0, float(np.max(np.abs(vel))))
    return {"len": 1e-9 * S, "rate": 1e-9 * cond * vmax, "rad": 1e-9 * cond,
            "deg": math.degrees(1e-9 * cond)}


def _law(rec, c, law, r0, r1, tol, sign=1.0, sig=None, **lit):
    """Decide one metamorphic pair; r1 must equal sign * r0."""
    import numpy as np
    if r0 is None or r1 is None:
        return
    rec.reach(law.split(":")[0])
    rec.hit(f"{law}:{c['cls']}")
    if sig is not None:
        rec.sigs.add(f"{law}|{c['cls']}|{int(c['periodic'])}|{c['bf']}|"
                     f"{c['extra']}|{sig}")
    for kind, a, b in zip(KINDS[c["cls"]], r0, r1):
        d = abs(b - sign * a)
        if kind == "rad":
            d = min(d, abs(2 * math.pi - d))
        elif kind == "deg":
            d = min(d, abs(360.0 - d))
        if not d <= tol[kind]:
            per = "periodic" if c["periodic"] and c["bf"] != "none" \
                else "nonperiodic"
            rel = "no-sign-change" if sign < 0 else "not-invariant"
            rec.viol(f"{c['cls']}-{per}-{law.replace(':', '-')}-{rel}",
                     f"{law}: {r0.tolist()} became {r1.tolist()} "
                     f"(expected x{sign:+.0f}, tol {tol[kind]:.2g})",
                     cls=c["cls"], index=c["index"], periodic=c["periodic"],
                     boxform=c["bf"], **lit)
            return
    if sign < 0 and float(np.max(np.abs(r0))) <= tol["rate"]:
        rec.hit("velrev_trivial_zero")


# ------------------------------------------------------------ generators ---
def _rot(rng):
    import numpy as np
    q, r = np.linalg.qr(rng.normal(size=(3, 3)))
    q = q * np.sign(np.diag(r))
    if np.linalg.det(q) < 0:
        q[:, 0] = -q[:, 0]
    return q


def _axis_rots():
    import numpy as np
    out = []
    for p in itertools.permutations(range(3)):
        for sg in itertools.product((1.0, -1.0), repeat=3):
            m = np.zeros((3, 3))
            for i in range(3):
                m[i, p[i]] = sg[i]
            if np.linalg.det(m) > 0 and not np.array_equal(m, np.eye(3)):
                out.append(m)
    return out


def _perp(a, b):
    import numpy as np
    return float(np.linalg.norm(np.cross(a, b)) / np.linalg.norm(b))


def _ok_mol(cls, mol, L):
    """Independent non-degeneracy predicate (geometry only)."""
    import numpy as np
    lim, f = (0.5 - MARGIN) * L, FEAT * float(np.min(L))
    vecs = [mol[a] - mol[b] for a, b in BONDS[cls]]
    if any(np.any(np.abs(v) > lim) or np.linalg.norm(v) < f for v in vecs):
        return False
    if cls == "Dihedral":
        return _perp(vecs[0], vecs[1]) >= f and _perp(vecs[2], vecs[1]) >= f
    return True


def _molecule(cls, rng, L):
    """Whole (unwrapped) molecule, shape (k,3), and its feature size."""
    import numpy as np
    l0 = float(np.min(L))
    while True:
        feat = FEAT * l0
        if cls in ("Position", "Velocity"):
            return rng.uniform(-0.5, 0.5, (1, 3)) * L, feat
        if cls in ("Distance", "Distancevel"):
            mol = np.vstack([np.zeros(3),
                             rng.uniform(-0.5, 0.5, 3) * L])
        elif cls == "Dihedral":
            v = rng.uniform(-0.5, 0.5, (3, 3)) * L * rng.uniform(0.2, 1)
            p1 = -v[0]
            p2 = p1 - v[1]
            mol = np.vstack([np.zeros(3), p1, p2, p2 + v[2]])
        else:   # 6-ring from Cremer-Pople amplitudes, jittered, rotated
            R = rng.uniform(0.05, 0.18) * l0
            q2, q3 = rng.uniform(0.15, 0.5) * R, rng.uniform(-0.5, 0.5) * R
            ph = rng.uniform(0, 2 * math.pi)
            j = np.arange(6)
            ang = 2 * math.pi * j / 6 + rng.uniform(-0.1, 0.1, 6)
            rad = R * (1 + rng.uniform(-0.1, 0.1, 6))
            z = (math.sqrt(1 / 3) * q2 * np.cos(ph + 4 * math.pi * j / 6)
                 + math.sqrt(1 / 6) * q3 * (-1.0) ** j
                 + rng.uniform(-0.02, 0.02, 6) * R)
            mol = np.column_stack([rad * np.cos(ang), rad * np.sin(ang), z])
            mol = mol @ _rot(rng).T
            feat = 0.1 * R
        if _ok_mol(cls, mol, L):
            return mol, feat


def _wraps(cls, index, shifts):
    """Per bond: on how many axes the two atoms sit in different images."""
    import numpy as np
    return "".join(str(int(np.count_nonzero(shifts[index[a]] -
                                            shifts[index[b]])))
                   for a, b in BONDS.get(cls, []))


# ------------------------------------------------------------------ jobs ---
def _geometry(rec, rng, axis_rots, g):
    import numpy as np
    cls = WEIGHTED[int(rng.integers(len(WEIGHTED)))]
    k = ARITY[cls]
    N = k + int(rng.integers(0, 5))
    index = [int(i) for i in rng.permutation(N)[:k]]
    dim = int(rng.integers(3))
    L = 10 ** rng.uniform(-0.5, 1.5) * rng.uniform(1, 3, 3)
    mol, feat = _molecule(cls, rng, L)
    whole = rng.uniform(-5, 5, (N, 3)) * L
    whole[index] = mol + rng.uniform(-5, 5, 3) * L
    vel = rng.normal(size=(N, 3)) * 10 ** rng.uniform(-2, 1)
    shifts = rng.integers(-3, 4, (N, 3))
    if rng.random() < 0.15:
        shifts[:] = 0
    rec.hit("geometries:" + cls)
    if cls in ("Position", "Velocity"):
        configs = [(False, ["box3", "box9", "none"][int(rng.integers(3))])]
    else:
        configs = [(p, bf) for p in (True, False)
                   for bf in ("box3", "box9", "none")]
    res = {}
    for periodic, bf in configs:
        pbc = periodic and bf != "none"
        c = {"cls": cls, "index": index, "periodic": periodic, "bf": bf,
             "extra": N - k, "feat": feat,
             "op": _mk(cls, index, periodic, dim)}
        box = _form(L, bf)
        base = whole + shifts * L if pbc else whole.copy()
        w0 = _wraps(cls, index, shifts) if pbc else "-"
        r0 = _calc(rec, c, base, vel, box)
        res[(periodic, bf)] = r0
        if g == 0 and not rec.samples:
            rec.samples.append(_lit(dict(
                cls=cls, index=index, periodic=periodic, boxform=bf,
                box=box, pos=base, vel=vel, value=r0)))
        if r0 is None:
            continue
        live = pbc and w0.strip("0") != ""
        sig = w0 if (live or not pbc) else None
        if cls in RELATIVE:
            t = rng.uniform(-10, 10, 3) * L
            p2 = base + t
            _law(rec, c, "translation", r0, _calc(rec, c, p2, vel, box),
                 _tols(c, (base, p2), L, vel), sig=sig, pos=base, vel=vel,
                 box=box, shift=t)
        if pbc:
            s2 = rng.integers(-3, 4, (N, 3))
            u = rng.random()
            if u < 0.3:       # one atom only
                keep = int(rng.integers(N))
                s2[np.arange(N) != keep] = shifts[np.arange(N) != keep]
            elif u < 0.4:     # back to the whole molecule
                s2[:] = 0
            p2 = whole + s2 * L
            w2 = _wraps(cls, index, s2)
            _law(rec, c, "image_shift", r0, _calc(rec, c, p2, vel, box),
                 _tols(c, (base, p2), L, vel),
                 sig=(w0 + ">" + w2) if (w0 + w2).strip("0") else None,
                 pos=base, vel=vel, box=box, images=s2 - shifts)
        if cls in ROTATABLE:
            if pbc:
                m = axis_rots[int(rng.integers(len(axis_rots)))]
                L2, kind = np.abs(m) @ L, "rotation:axisperm"
            else:
                m, L2, kind = _rot(rng), L, "rotation:free"
            p2, v2 = base @ m.T, vel @ m.T
            _law(rec, c, kind, r0, _calc(rec, c, p2, v2, _form(L2, bf)),
                 _tols(c, (base, p2), L, vel), sig=sig, pos=base, vel=vel,
                 box=box, rotation=m)
        sign = -1.0 if cls in VELTYPE else 1.0
        tol = _tols(c, (base,), L, vel)
        _law(rec, c, "velocity_reversal:negated", r0,
             _calc(rec, c, base, -vel, box), tol, sign=sign, sig=sig,
             pos=base, vel=vel, box=box)
        eng = _engine(c["op"])
        e0 = _calc(rec, c, base, vel, box, eng=eng, vel_rev=False)
        _law(rec, c, "engine_route", r0, e0, tol, pos=base, vel=vel, box=box)
        _law(rec, c, "velocity_reversal:vel_rev", e0,
             _calc(rec, c, base, vel, box, eng=eng, vel_rev=True), tol,
             sign=sign, sig=sig, pos=base, vel=vel, box=box)
    if cls in RELATIVE:
        c = {"cls": cls, "index": index, "periodic": True, "bf": "box3+box9",
             "extra": N - k, "feat": feat}
        base = whole + shifts * L
        w0 = _wraps(cls, index, shifts)
        _law(rec, c, "box_forms", res[(True, "box3")], res[(True, "box9")],
             _tols(c, (base,), L, vel), sig=w0 if w0.strip("0") else None,
             pos=base, vel=vel, box3=_form(L, "box3"), box9=_form(L, "box9"))


def _rand(job, rec):
    import numpy as np
    rng = np.random.default_rng(job["seed"])
    axis_rots = _axis_rots()
    spy = _install_spy(rec)
    for g in range(job["count"]):
        _geometry(rec, rng, axis_rots, g)
        for _ in range(4):      # direct minimum-image calls, up to 3.5 boxes
            L = 10 ** rng.uniform(-0.5, 1.5) * rng.uniform(1, 3, 3)
            spy(rng.uniform(-3.5, 3.5, 3) * L, L)
            rec.hit("pbc_direct_calls")


def _grid(rec, part):
    import numpy as np
    spy = _install_spy(rec)
    rng = np.random.default_rng(20)
    if part == "pbc":
        _path_reverse_probe(rec, rng)
    # (a) exact dyadic inputs: multiples of L/4 incl. +-L/2, +-L, +-3L/2
    ks = (-14, -10, -7, -6, -5, -4, -3, -2, -1, 0, 1, 2, 3, 4, 5, 6, 7, 10,
          14)
    for L in ((2.0, 4.0, 8.0), (1.0, 1.0, 1.0), (16.0, 2.0, 4.0)):
        if part != "pbc":
            break
        La = np.array(L)
        for kk in itertools.product(ks, repeat=3):
            spy(np.array(kk) * 0.25 * La, La)
            rec.hit("pbc_grid_exact_calls")
    # (b) every ordered index choice x every single-atom image shift
    cube = [np.array(n) for n in itertools.product(range(-3, 4), repeat=3)]
    small = [n for n in cube if np.max(np.abs(n)) <= 1 or
             np.count_nonzero(n) == 1]
    for cls in RELATIVE:
        if part != cls:
            continue
        k = ARITY[cls]
        L = np.array([3.0, 5.0, 4.0])
        if cls == "Puckering":
            mol, feat = _molecule(cls, rng, L)
            cyc = [list(np.roll(np.arange(6), s)) for s in range(6)]
            choices = cyc + [c[::-1] for c in cyc]
        else:
            while True:
                mol = rng.uniform(0, 0.45, (4, 3)) * L
                choices = [list(p) for p in itertools.permutations(range(4), k)]
                if all(_ok_mol(cls, mol[p], L) for p in choices):
                    break
            feat = FEAT * 3.0
        pos0 = mol + np.array([0.7, -1.1, 2.3])
        vel = rng.normal(size=pos0.shape)
        for index in choices:
            for bf in ("box3", "box9"):
                c = {"cls": cls, "index": [int(i) for i in index],
                     "periodic": True, "bf": bf, "extra": len(pos0) - k,
                     "feat": feat, "op": _mk(cls, index, True)}
                box = _form(L, bf)
                r0 = _calc(rec, c, pos0, vel, box)
                if r0 is None:
                    continue
                for a in range(len(pos0)):
                    for n in (cube if k == 2 else small):
                        p2 = pos0.copy()
                        p2[a] += n * L
                        sh = np.zeros(pos0.shape, int)
                        sh[a] = n
                        w = _wraps(cls, index, sh)
                        _law(rec, c, "image_shift", r0,
                             _calc(rec, c, p2, vel, box),
                             _tols(c, (p2,), L, vel),
                             sig="grid>" + w if w.strip("0") else None,
                             pos=pos0, vel=vel, box=box, atom=a, image=n)
    # (c) Distance with a bond component of exactly L/2 (value continuous)
    L = np.array([2.0, 4.0, 8.0])
    for d in ((1.0, 0.5, -1.25), (-1.0, 2.0, 4.0), (0.25, -2.0, 0.5)):
        if part != "half":
            break
        pos0 = np.array([[0.25, 0.5, 1.0], [0.25, 0.5, 1.0]]) + \
            np.array([[0, 0, 0], d])
        vel = np.ones((2, 3))
        for bf in ("box3", "box9"):
            c = {"cls": "Distance", "index": [0, 1], "periodic": True,
                 "bf": bf, "extra": 0, "feat": 0.1,
                 "op": _mk("Distance", [0, 1], True)}
            r0 = _calc(rec, c, pos0, vel, _form(L, bf))
            for a in (0, 1):
                for n in cube:
                    p2 = pos0.copy()
                    p2[a] += n * L
                    _law(rec, c, "image_shift", r0,
                         _calc(rec, c, p2, vel, _form(L, bf)),
                         _tols(c, (p2,), L, vel),
                         sig="half-box>" + str(int(np.count_nonzero(n))),
                         pos=pos0, vel=vel, box=_form(L, bf), atom=a, image=n)
                    rec.hit("distance_exact_half_box_pairs")


def _path_reverse_probe(rec, rng):
    """Informational only: what Path.reverse's recomputation observes."""
    import numpy as np
    from infretis.classes.path import Path
    from infretis.classes.system import System
    op = _mk("Distancevel", [0, 1], False)
    path = Path()
    for _ in range(3):
        s = System()
        s.pos, s.vel, s.box = rng.normal(size=(2, 3)), \
            rng.normal(size=(2, 3)), None
        s.order = op.calculate(s)
        path.append(s)
    try:
        rev = path.reverse(op)
    except Exception as exc:  # noqa: BLE001
        rec.hit("info_path_reverse_raised:" + type(exc).__name__)
        return
    for a, b in zip(reversed(path.phasepoints), rev.phasepoints):
        same = np.isclose(a.order[0], b.order[0])
        rec.hit("info_path_reverse_recomputed_order_" +
                ("unchanged" if same else "sign_flipped"))


def work(job, scratch):
    import warnings
    warnings.simplefilter("ignore")     # 1/0 in the 9-component box form
    rec = _Rec()
    if job["kind"] == "grid":
        _grid(rec, job["part"])
    else:
        _rand(job, rec)
    n = sum(v for k, v in rec.reached.items()     # decided pairs + direct
            if k not in ("no_mutation", "min_image_bound")) + \
        rec.ev.get("pbc_direct_calls", 0) + \
        rec.ev.get("pbc_grid_exact_calls", 0)
    return {"n": n, "sigs": sorted(rec.sigs), "events": rec.ev,
            "violations": rec.v[:40], "samples": rec.samples,
            "reached": rec.reached, "notes": []}
