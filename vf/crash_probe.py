"""Post-crash checker, run in a fresh process on a crash-state directory.

    python -m vf.crash_probe <crash-dir> <more-steps> [policy] [adv_seed]

1. the restart file parses and ``setup_config`` + ``setup_internal`` succeed:
   every active path loads, has non-zero weight in its slot and all files;
2. the recorded in-flight jobs are re-issued first;
3. the run continues for <more-steps> steps without raising;
4. afterwards every replaced path has exactly one data row, no live path has
   one, and every file of a live path exists.
Prints one JSON object (last line of stdout).
"""
import importlib.util  # noqa: F401
import json
import os
import sys
import traceback


class _Done(Exception):
    pass


def probe(cdir, more, policy="fifo", adv_seed=0):
    """In-process variant (the rig resets the module/class level state of
    infretis before every segment, emulating a fresh process)."""
    out = {"stage": "parse", "problems": [], "info": {}}
    try:
        _probe(cdir, more, policy, adv_seed, out)
    except _Done:
        pass
    return out


def main():
    cdir, more = sys.argv[1], int(sys.argv[2])
    policy = sys.argv[3] if len(sys.argv) > 3 else "fifo"
    adv_seed = int(sys.argv[4]) if len(sys.argv) > 4 else 0
    out = probe(cdir, more, policy, adv_seed)
    sys.stdout.write("\n" + json.dumps(out, default=str) + "\n")
    sys.stdout.flush()
    os._exit(0)


def _probe(cdir, more, policy, adv_seed, out):
    def done():
        raise _Done()

    import tomli
    import tomli_w
    rfile = os.path.join(cdir, "restart.toml")
    if not os.path.isfile(rfile):
        out["stage"] = "no-restart-file"
        done()
    try:
        with open(rfile, "rb") as f:
            cfg = tomli.load(f)
        cur = cfg["current"]
        cstep = cur["cstep"]
    except Exception as exc:
        out["problems"].append({"mech": "restart-file-unparsable",
                                "what": f"{type(exc).__name__}: {exc}"})
        done()
    out["info"].update({"cstep": cstep, "active": cur["active"],
                        "locked": cur.get("locked", []),
                        "traj_num": cur["traj_num"]})
    cfg["simulation"]["steps"] = cstep + more
    with open(rfile, "wb") as f:
        tomli_w.dump(cfg, f)

    from vf import rig_sched as R

    class Picks:
        def __init__(self):
            self.issued = []

        def after_prep(self, rig, state, o, md_items):
            self.issued.append([[int(e) + state._offset
                                 for e in o["ens_nums"]],
                                [str(p) for p in o["pnum_old"]]])

        def on_state(self, rig, state):
            out["stage"] = "loaded"
            bad = [[i, state._trajs[i].path_number]
                   for i in range(state.n - 1) if state.state[i][i] == 0]
            if bad:
                out["problems"].append({
                    "mech": "active-path-zero-weight",
                    "what": f"after the restart slots {bad} hold paths with "
                            "zero weight"})
            for t in state._trajs[:-1]:
                for a in t.adress:
                    if not os.path.isfile(a):
                        out["problems"].append({
                            "mech": "active-path-file-missing",
                            "what": f"path {t.path_number} lacks {a}"})
    picks = Picks()
    rig = R.Rig(cdir, [picks], policy=policy, adv_seed=adv_seed)
    try:
        res = rig.run_segment("restart.toml")
    except BaseException as exc:
        tb = traceback.format_exc()
        mech = "continue-raised"
        if isinstance(exc, OSError) and exc.errno == 39:
            mech = "continue-raised:ENOTEMPTY-rmdir"
        if out["stage"] in ("parse",):
            mech = "restart-does-not-load"
        out["problems"].append({
            "mech": mech, "what": f"{type(exc).__name__}: {exc}",
            "tb": tb[-1500:], "at_cstep": getattr(rig.state, "cstep", None)
            if rig.state is not None else None})
        out["stage"] = "raised"
        res = "raised"
    out["result"] = res
    if res == "nothing":
        out["problems"].append({
            "mech": "restart-refused", "what": "setup_config returned None "
            "although a restart file exists"})
        done()
    # re-issue of recorded in-flight jobs
    rec = [[list(a), [str(x) for x in b]] for a, b in cur.get("locked", [])]
    out["info"]["issued_first"] = picks.issued[:len(rec) + 1]
    if res != "raised" or picks.issued:
        if picks.issued[:len(rec)] != rec and more >= len(rec):
            out["problems"].append({
                "mech": "inflight-jobs-not-reissued",
                "what": f"recorded {rec}, first issued "
                        f"{picks.issued[:len(rec)]}"})
    if res == "done":
        out["stage"] = "continued"
        try:
            with open(rfile, "rb") as f:
                c2 = tomli.load(f)
            cur2 = c2["current"]
            df = c2["output"]["data_file"]
            df = df if os.path.isabs(df) else os.path.join(cdir, df)
            rows = R.parse_data_file(df)
        except Exception as exc:
            out["problems"].append({
                "mech": "state-unreadable-after-continue",
                "what": f"{type(exc).__name__}: {exc}"})
            done()
        count = {}
        for r in rows:
            count[r["pn"]] = count.get(r["pn"], 0) + 1
        active = set(cur2["active"])
        dup = sorted(p for p, c in count.items() if c > 1)
        if dup:
            out["problems"].append({
                "mech": "path-with-two-data-rows",
                "what": f"paths {dup} have more than one data row",
                "paths": dup})
        live_rows = sorted(p for p in count if p in active)
        if live_rows:
            out["problems"].append({
                "mech": "live-path-has-data-row",
                "what": f"active paths {live_rows} have a data row"})
        missing = sorted(p for p in range(cur2["traj_num"])
                         if p not in active and p not in count)
        if missing:
            out["problems"].append({
                "mech": "replaced-path-without-data-row",
                "what": f"replaced paths {missing} have no data row"})
        if cur2["cstep"] != cstep + more:
            out["problems"].append({
                "mech": "continue-wrong-cstep",
                "what": f"cstep {cur2['cstep']} != {cstep + more}"})
        for pn in active:
            tt = os.path.join(cdir, "load", str(pn), "traj.txt")
            if not os.path.isfile(tt):
                out["problems"].append({
                    "mech": "active-path-file-missing",
                    "what": f"{tt} missing after continuing"})
        out["info"]["rows"] = len(rows)
    done()


if __name__ == "__main__":
    main()
