"""One real end-to-end run (real aiorunner, forked worker processes):
    python -m vf.e2e_host <case-dir> <input.toml>
Exits 0 when internalrun returned."""
import importlib.util  # noqa: F401
import os
import sys


def main():
    os.chdir(sys.argv[1])
    from infretis.bin import internalrun
    internalrun(sys.argv[2])
    return 0


if __name__ == "__main__":
    sys.exit(main())
