"""C07 part (iv): per-engine stream purity of propagate().

For the stochastic engines that can run in this sandbox (TurtleMD Langevin,
ASE Langevin; LAMMPS against the stub program for the integrator seed it
writes into its input) a recording proxy wraps ``engine.rgen`` and the
integrator constructor:

 * the seed handed to a stochastic integrator must be the value the engine
   stream just returned (provenance, decided exactly);
 * the global numpy / random state must not change during propagate();
 * equal engine-stream states give identical trajectories, another stream a
   different one.
"""
import importlib.util  # noqa: F401
import copy
import os
import random
import shutil


class RecGen:
    """Forwarding, recording proxy for a numpy Generator."""

    def __init__(self, gen):
        self._g = gen
        self.calls = []

    def __getattr__(self, name):
        attr = getattr(self._g, name)
        if not callable(attr):
            return attr

        def f(*a, **k):
            out = attr(*a, **k)
            try:
                self.calls.append((name, out if not hasattr(out, "shape")
                                   or out.shape == () else None))
            except Exception:
                self.calls.append((name, None))
            return out
        return f


def plan(tier, seed):
    rng = random.Random(f"C07p-{seed}")
    n = 6 if tier == "quick" else 60
    return [{"kind": "purity", "seed": rng.randrange(2 ** 31), "hashseed": 0,
             "count": 20 if tier == "quick" else 40} for _ in range(n)]


def _digest():
    from vf.monitors import _glob_rng_digest
    return _glob_rng_digest()


def _orders(path):
    return [tuple(round(float(o), 12) for o in p.order)
            for p in path.phasepoints]


def work(job, scratch):
    import numpy as np
    from infretis.classes.path import Path
    from infretis.classes.system import System
    from infretis.classes.orderparameter import create_orderparameter
    rng = random.Random(job["seed"])
    res = {"n": 0, "sigs": [], "events": {}, "violations": [], "samples": [],
           "reached": {}, "notes": []}

    def ev(k, n=1):
        res["events"][k] = res["events"].get(k, 0) + n

    def reach(k):
        res["reached"][k] = res["reached"].get(k, 0) + 1

    def bad(mech, what, **kw):
        if len(res["violations"]) < 30:
            res["violations"].append(dict(mech=mech, what=what, **kw))

    wdir = os.path.join(scratch, "pur")
    os.makedirs(wdir, exist_ok=True)

    def run(eng, conf, maxlen, stream_seed, ens):
        eng.rgen = RecGen(np.random.default_rng(stream_seed))
        sysm = System()
        sysm.config = (conf, 0)
        sysm.order = eng.calculate_order(sysm)
        path = Path(maxlen=maxlen)
        d0 = _digest()
        eng.propagate(path, ens, sysm, reverse=False)
        return path, eng.rgen.calls, d0 != _digest()

    for c in range(job["count"]):
        kind = rng.choice(["turtlemd", "turtlemd", "ase", "lammps"])
        case = {"engine": kind}
        try:
            if kind == "turtlemd":
                from infretis.classes.engines.turtlemdengine import \
                    TurtleMDEngine
                temp = rng.choice([0.07, 0.3, 1.0])
                settings = {"gamma": rng.choice([0.3, 1.0]),
                            "beta": 1.0 / temp}
                seeded = rng.random() < 0.3
                if seeded:
                    settings["seed"] = rng.randrange(1000)
                case.update(integrator_settings=settings)
                eng = TurtleMDEngine(
                    0.025, rng.choice([1, 2]), temp, 1.0,
                    {"class": "LangevinInertia", "settings": settings},
                    {"class": "DoubleWell", "settings": {"a": 1.0, "b": 2.0,
                                                         "c": 0.0}},
                    {"mass": [1.0], "name": ["Z"], "pos": [[-1.0]]},
                    {"periodic": [False]})
                eng.order_function = create_orderparameter({"orderparameter": {
                    "class": "Position", "index": [0, 0], "periodic": False}})
                conf = os.path.join(wdir, f"s{c}.xyz")
                with open(conf, "w") as f:
                    f.write("1\n# Box: 0.0 0.0 0.0\nZ %.6f 0.0 0.0 %.6f 0.0 "
                            "0.0\n" % (rng.uniform(-1.1, -0.9),
                                       rng.uniform(-0.3, 0.3)))
                seeds_seen = []
                orig_int = eng.integrator

                def rec_int(*a, _o=orig_int, **k):
                    seeds_seen.append(k.get("seed"))
                    return _o(*a, **k)
                eng.integrator = rec_int
                ens = {"interfaces": (-5.0, 0.0, 5.0), "ens_name": "001"}
            elif kind == "ase":
                import ase
                from ase import units
                from infretis.classes.engines.ase_engine import ASEEngine
                calc = os.path.join(os.environ.get("VERIF_REPO", "/repo"),
                                    "examples/ase/H2/H2-calc.py")
                eng = ASEEngine(0.5, 300.0, rng.choice([1, 2]), ".",
                                "langevin",
                                {"module": calc, "class": "LennardJonesCalc",
                                 "sigma": 3.0, "epsilon": 0.2591, "rc": 12.0,
                                 "smooth": False},
                                langevin_friction=0.05, langevin_fixcm=False,
                                exe_path=wdir)
                eng.order_function = create_orderparameter({"orderparameter": {
                    "class": "Distance", "index": [0, 1], "periodic": True}})
                atoms = ase.Atoms("H2", positions=[[1, 1, 1], [4.6, 1, 1]],
                                  cell=[30, 30, 30], pbc=True)
                atoms.set_velocities(np.array(
                    [[rng.uniform(-.02, .02) * units.Ang / units.fs] * 3] * 2))
                conf = os.path.join(wdir, f"s{c}.traj")
                atoms.write(conf)
                seeds_seen = None
                ens = {"interfaces": (0.1, 3.0, 25.0), "ens_name": "001"}
            else:
                from vf.checks.c12 import ExtRig
                import infretis.classes.engines.lammps as lm
                rigx = ExtRig("lammps", os.path.join(scratch, f"l{c}"),
                              rng.randrange(2 ** 31))
                eng = rigx.engine(1.0, 1, wdir)
                eng.order_function = create_orderparameter({"orderparameter": {
                    "class": "Distance", "index": [0, 1], "periodic": False}})
                conf = rigx.write_start(wdir, [[1.0, 1.0, 1.0],
                                               [1.8, 1.0, 1.0]],
                                        [[0.0, 0, 0], [0.01, 0, 0]],
                                        [[0, 12.0], [0, 12.0], [0, 12.0]], rng)
                seeds_seen = []
                orig_w = lm.write_for_run

                def rec_w(infile, outfile, settings=None, _o=orig_w):
                    seeds_seen.append(int(settings["infretis_seed"]))
                    return _o(infile, outfile, settings)
                lm.write_for_run = rec_w
                ens = {"interfaces": (0.1, 0.5, 50.0), "ens_name": "001"}
            eng.exe_dir = wdir
            maxlen = rng.choice([4, 8])
            s1 = rng.randrange(2 ** 31)
            try:
                p1, calls1, dirty1 = run(eng, conf, maxlen, s1, ens)
            except TypeError as exc:
                if kind == "turtlemd" and "seed" in case.get(
                        "integrator_settings", {}):
                    ev("turtlemd_config_with_own_seed_rejected_TypeError")
                    continue
                raise
            finally:
                if kind == "lammps":
                    lm.write_for_run = orig_w
            res["n"] += 1
            reach("engine_purity")
            ev("purity_" + kind)
            if dirty1:
                bad("global-rng-used", f"{kind}: the global numpy/random "
                    "state changed during propagate()", case=case)
            if seeds_seen is not None:
                reach("integrator_seed_provenance")
                drawn = [v for n_, v in calls1 if n_ == "integers"]
                if not seeds_seen or not drawn or \
                        int(seeds_seen[-1]) != int(drawn[-1]):
                    bad("integrator-seed-not-from-engine-stream",
                        f"{kind}: integrator seed(s) {seeds_seen} but the "
                        f"engine stream returned {drawn}", case=case)
            if kind != "lammps":
                p2, _, _ = run(eng, conf, maxlen, s1, ens)
                p3, _, _ = run(eng, conf, maxlen, s1 + 1, ens)
                if _orders(p1) != _orders(p2):
                    bad("propagate-not-reproducible-from-engine-stream",
                        f"{kind}: equal engine streams gave different "
                        "trajectories", case=case, a=_orders(p1)[:6],
                        b=_orders(p2)[:6])
                if _orders(p1) == _orders(p3) and len(p1.phasepoints) > 2:
                    bad("propagate-ignores-engine-stream",
                        f"{kind}: Langevin trajectories for two different "
                        "engine streams are identical", case=case)
            res["sigs"].append(f"{kind}-{s1}")
            if len(res["samples"]) < 1:
                res["samples"].append({"case": case, "rng_calls":
                                       [n_ for n_, _ in calls1][:8]})
        except BaseException as exc:
            import traceback
            res["notes"].append(f"purity case {kind} raised "
                                f"{type(exc).__name__}: {exc} "
                                + traceback.format_exc()[-600:])
            res.setdefault("inconclusive", []).append(
                f"engine purity case {kind} could not run: "
                f"{type(exc).__name__}: {exc}")
        for fn in os.listdir(wdir):
            fp = os.path.join(wdir, fn)
            if os.path.isfile(fp):
                os.remove(fp)
    return res
