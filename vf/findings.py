"""Known-findings classifier.

``known_findings.json`` (committed, never written at run time) lists genuine
defects that were recorded rather than repaired.  Each entry is keyed by a
*mechanism tag*: the monitor that produces a witness computes the tag from the
structural relation that failed (call site + relation), never from seeds,
hashes or random values.  A witness is a known finding iff an entry with
``status == "known"`` for the same property lists its tag (and, if the entry
has a ``where`` list, the witness ``where`` is in it).  ``fixed`` entries
suppress nothing.
"""
import json
import os

HERE = os.path.dirname(os.path.dirname(os.path.abspath(__file__)))
_cache = None


def load():
    global _cache
    if _cache is None:
        path = os.path.join(HERE, "known_findings.json")
        if os.path.isfile(path):
            with open(path) as f:
                _cache = json.load(f)
        else:
            _cache = {"findings": []}
    return _cache


def classify(prop, witness):
    mech = witness.get("mech")
    if not mech:
        return None
    for ent in load().get("findings", []):
        if ent.get("status") != "known":
            continue
        if prop not in ent.get("properties", [ent.get("property")]):
            continue
        if mech != ent.get("mech"):
            continue
        where = ent.get("where")
        if where and witness.get("where") not in where:
            continue
        return ent["id"]
    return None


def describe(prop, kid):
    for ent in load().get("findings", []):
        if ent.get("id") == kid:
            return ent.get("what", "")
    return ""
