"""File-system effect recorder and crash-state factory (DESIGN 2.5).

``sys.addaudithook`` sees every open-for-write, remove, rename (also from
shutil.move), mkdir, rmdir, truncate of the main process.  While armed (inside
``treat_output`` / the end-of-run restart write) the recorder numbers the
effects and, *before each effect happens*, copies the case directory: that copy
is exactly what a crash of the main process before effect i would leave on disk
(all earlier files are closed at that moment).  A crash *inside* the write of
effect i is produced afterwards by cutting the file that effect i opened to a
prefix of what that open eventually wrote.
"""
import os
import shutil
import sys

WRITE_FLAGS = os.O_WRONLY | os.O_RDWR | os.O_APPEND | os.O_CREAT | os.O_TRUNC


class Recorder:
    _installed = False
    _active = None

    def __init__(self, cdir, snapdir, max_snaps=4000):
        self.cdir = os.path.realpath(cdir)
        self.snapdir = snapdir
        self.armed = False
        self.effects = []      # dicts: idx, step, kind, event, path, mode
        self.step = None
        self.kind = None
        self.max_snaps = max_snaps
        self.busy = False
        os.makedirs(snapdir, exist_ok=True)
        Recorder._active = self
        if not Recorder._installed:
            sys.addaudithook(Recorder._hook)
            Recorder._installed = True

    @staticmethod
    def _hook(event, args):
        r = Recorder._active
        if r is None or not r.armed or r.busy:
            return
        try:
            if event == "open":
                path, mode, flags = args[0], args[1], args[2]
                if not isinstance(path, (str, bytes, os.PathLike)):
                    return
                if not (flags & (os.O_WRONLY | os.O_RDWR | os.O_APPEND |
                                 os.O_CREAT | os.O_TRUNC)):
                    return
                m = ("a" if flags & os.O_APPEND else "w")
                r.effect("open-" + m, os.fspath(path))
            elif event in ("os.remove", "os.rmdir", "os.mkdir",
                           "os.truncate"):
                r.effect(event, os.fspath(args[0]))
            elif event == "os.rename":
                r.effect(event, os.fspath(args[0]), os.fspath(args[1]))
        except Exception:
            pass

    def effect(self, event, path, dst=None):
        if isinstance(path, bytes):
            path = path.decode()
        full = os.path.realpath(os.path.join(os.getcwd(), path))
        if not full.startswith(self.cdir + os.sep):
            return
        rel = os.path.relpath(full, self.cdir)
        if rel.startswith("sim.log") or rel.endswith(".log"):
            return  # log handlers are not part of the state
        idx = len(self.effects)
        if idx >= self.max_snaps:
            return
        self.busy = True
        try:
            snap = os.path.join(self.snapdir, str(idx))
            shutil.copytree(self.cdir, snap, symlinks=True)
        finally:
            self.busy = False
        rec = {"idx": idx, "step": self.step, "kind": self.kind,
               "event": event, "path": rel}
        if dst is not None:
            d = os.path.realpath(os.path.join(os.getcwd(), dst))
            rec["dst"] = os.path.relpath(d, self.cdir)
        self.effects.append(rec)

    def final_snapshot(self):
        """State after the last effect (used to know what an open wrote)."""
        self.busy = True
        try:
            snap = os.path.join(self.snapdir, "final")
            if os.path.isdir(snap):
                shutil.rmtree(snap)
            shutil.copytree(self.cdir, snap, symlinks=True)
        finally:
            self.busy = False

    # rig hooks ------------------------------------------------------------
    def before_treat(self, rig, state, md_items):
        self.step = int(state.cstep)
        k = "zeroswap" if len(md_items["picked"]) == 2 else "move"
        self.kind = k + ("-acc" if md_items.get("status") == "ACC" else
                         "-rej") + f"-seg{rig.segment}"
        self.armed = True

    def after_treat(self, rig, state, out, md_items):
        self.armed = False

    def treat_raised(self, rig, state, exc, md_items):
        self.armed = False


def torn_variants(snapdir, effects, i, fractions=(0.0, 0.02, 0.5, 0.98)):
    """Yield (tag, builder) for crash states *inside* the write of effect i.

    builder(dest) creates the crash directory.  The content the open
    eventually wrote is taken from the snapshot of the next effect that
    touches another file (the file is closed by then) or the final snapshot.
    """
    eff = effects[i]
    if not eff["event"].startswith("open-"):
        return
    rel = eff["path"]
    # first later snapshot taken after this file was closed: the next effect
    later = os.path.join(snapdir, str(i + 1)) if i + 1 < len(effects) \
        else os.path.join(snapdir, "final")
    fin = os.path.join(later, rel)
    if not os.path.isfile(fin):
        return
    with open(fin, "rb") as f:
        final = f.read()
    base = os.path.join(snapdir, str(i))
    old = b""
    if eff["event"] == "open-a" and os.path.isfile(os.path.join(base, rel)):
        with open(os.path.join(base, rel), "rb") as f:
            old = f.read()
        if not final.startswith(old):
            old = b""
    new = final[len(old):]
    seen = set()
    for fr in fractions:
        n = min(len(new), max(0, int(round(fr * len(new)))))
        if fr > 0 and n == 0:
            n = min(1, len(new))
        if fr < 1 and n == len(new) and len(new) > 0:
            n = len(new) - 1
        if n in seen:
            continue
        seen.add(n)
        content = old + new[:n]

        def build(dest, content=content):
            shutil.copytree(base, dest, symlinks=True)
            p = os.path.join(dest, rel)
            os.makedirs(os.path.dirname(p), exist_ok=True)
            with open(p, "wb") as f:
                f.write(content)
        yield (f"torn@{n}/{len(new)}", build)


def after_rename_variant(snapdir, effects, i):
    """Crash state right AFTER the rename of effect i and before anything
    else happens: the snapshot taken before the effect with the rename
    applied to what was on disk at that moment.  If the renamed file was
    still open with unflushed data (rename inside the `with` block), the
    destination holds only what had reached the disk."""
    eff = effects[i]
    if eff["event"] != "os.rename" or "dst" not in eff:
        return
    base = os.path.join(snapdir, str(i))
    if not os.path.exists(os.path.join(base, eff["path"])):
        return

    def build(dest):
        shutil.copytree(base, dest, symlinks=True)
        d = os.path.join(dest, eff["dst"])
        os.makedirs(os.path.dirname(d), exist_ok=True)
        os.replace(os.path.join(dest, eff["path"]), d)
    yield ("after-rename", build)
