"""Driver: tiers, seeds, subprocess pool, watchdogs, verdicts, evidence.

    ./check <ID> [--tier quick|thorough] [--seed N] [--replay FILE]

A check module ``vf.checks.cNN`` provides

    PROPERTY, LEVEL, RULE, ASSUMPTIONS
    plan(tier, seed)          -> list of JSON-able job dicts
    work(job, scratch)        -> result dict   (runs in a fresh subprocess)
    aggregate(jobs, results, ctx) -> optional extra result dict (cross-job
                                 oracles: statistics, differential runs)

A result dict has
    n           cases evaluated
    sigs        list of signatures of the non-trivial cases (strings)
    events      {name: count}   what the monitors observed
    violations  [witness dict]  each has at least {"what": ..., "mech": ...}
    samples     [case]          a few literal cases
    reached     {monitor: count} evaluations per deciding monitor
    notes       [str]
"""
import importlib.util  # noqa: F401  (infretis.factory needs the submodule)
import argparse
import hashlib
import importlib
import json
import os
import shutil
import subprocess
import sys
import tempfile
import time
import traceback
from concurrent.futures import ThreadPoolExecutor

from vf import findings

HERE = os.path.dirname(os.path.dirname(os.path.abspath(__file__)))
NPROC = int(os.environ.get("VERIF_JOBS", "16"))


def scratch_root():
    base = os.environ.get("VERIF_SCRATCH")
    if not base:
        base = "/dev/shm" if os.access("/dev/shm", os.W_OK) else None
    return tempfile.mkdtemp(prefix="verif-", dir=base)


def merge(results):
    out = {"n": 0, "sigs": set(), "events": {}, "violations": [],
           "samples": [], "reached": {}, "notes": [], "inconclusive": []}
    for r in results:
        if r is None:
            continue
        out["n"] += int(r.get("n", 0))
        out["sigs"].update(r.get("sigs", []))
        for k, v in r.get("events", {}).items():
            out["events"][k] = out["events"].get(k, 0) + v
        for k, v in r.get("reached", {}).items():
            out["reached"][k] = out["reached"].get(k, 0) + v
        out["violations"].extend(r.get("violations", []))
        if len(out["samples"]) < 6:
            out["samples"].extend(r.get("samples", [])[:2])
        out["notes"].extend(r.get("notes", []))
        out["inconclusive"].extend(r.get("inconclusive", []))
    return out


def run_job(mod_name, job, idx, root, timeout):
    """Run one job in a fresh interpreter; returns (result|None, note)."""
    jdir = os.path.join(root, f"job{idx}")
    os.makedirs(jdir, exist_ok=True)
    jf = os.path.join(jdir, "job.json")
    of = os.path.join(jdir, "out.json")
    with open(jf, "w") as f:
        json.dump(job, f)
    env = dict(os.environ)
    env["PYTHONHASHSEED"] = str(job.get("hashseed", 0))
    env["INFRETIS_VERIF"] = "1"
    env["PYTHONPATH"] = os.environ.get("VERIF_REPO", "/repo") + ":" + HERE
    cmd = [sys.executable, "-m", "vf.worker", mod_name, jf, of, jdir]
    t0 = time.time()
    try:
        p = subprocess.run(cmd, env=env, cwd=jdir, timeout=timeout,
                           stdout=subprocess.PIPE, stderr=subprocess.STDOUT)
    except subprocess.TimeoutExpired:
        return None, f"job {idx} hit the {timeout}s wall-clock watchdog"
    if not os.path.isfile(of):
        tail = p.stdout.decode(errors="replace")[-3000:]
        return None, f"job {idx} died rc={p.returncode}: {tail}"
    with open(of) as f:
        res = json.load(f)
    res["_wall"] = time.time() - t0
    if not os.environ.get("VERIF_KEEP"):
        shutil.rmtree(jdir, ignore_errors=True)
    return res, None


def write_replay(prop, witness):
    os.makedirs(os.path.join(HERE, "replays"), exist_ok=True)
    blob = json.dumps(witness, sort_keys=True, default=str)
    sig = hashlib.sha1(blob.encode()).hexdigest()[:10]
    path = os.path.join(HERE, "replays", f"{prop}-{sig}.json")
    with open(path, "w") as f:
        json.dump(witness, f, indent=1, sort_keys=True, default=str)
    return path


def main(argv=None):
    ap = argparse.ArgumentParser()
    ap.add_argument("prop")
    ap.add_argument("--tier", default=os.environ.get("VERIF_TIER", "quick"))
    ap.add_argument("--seed", type=int,
                    default=int(os.environ.get("VERIF_SEED", "0") or 0))
    ap.add_argument("--replay", default=None)
    args = ap.parse_args(argv)
    prop = args.prop.upper()
    tier = args.tier if args.tier in ("quick", "thorough") else "quick"
    mod_name = "vf.checks." + prop.lower()
    mod = importlib.import_module(mod_name)
    t0 = time.time()
    root = scratch_root()
    try:
        if args.replay:
            return replay(mod, mod_name, prop, args.replay, root)
        return run_check(mod, mod_name, prop, tier, args.seed, root, t0)
    finally:
        shutil.rmtree(root, ignore_errors=True)


def replay(mod, mod_name, prop, path, root):
    with open(path) as f:
        wit = json.load(f)
    job = wit.get("job")
    if job is None:
        print(f"replay file {path} holds no job")
        return 2
    res, note = run_job(mod_name, job, 0, root,
                        getattr(mod, "JOB_TIMEOUT", 1800))
    if res is None:
        print(f"INCONCLUSIVE property={prop} {note}")
        return 2
    vs = res.get("violations", [])
    for v in vs:
        print(json.dumps(v, indent=1, default=str)[:4000])
    new = [v for v in vs if findings.classify(prop, v) is None]
    if new:
        print(f"VIOLATION property={prop} replay={path}")
        return 1
    print(f"replay of {path}: no unlisted violation reproduced "
          f"({len(vs)} known-finding witnesses)")
    return 0


def run_check(mod, mod_name, prop, tier, seed, root, t0):
    jobs = mod.plan(tier, seed)
    timeout = getattr(mod, "JOB_TIMEOUT", 1800)
    results, notes = [None] * len(jobs), []

    def _one(i):
        try:
            return run_job(mod_name, jobs[i], i, root, timeout)
        except Exception:  # harness error, never a verdict
            return None, "harness: " + traceback.format_exc()[-1500:]

    with ThreadPoolExecutor(max_workers=NPROC) as ex:
        for i, (res, note) in enumerate(ex.map(_one, range(len(jobs)))):
            results[i] = res
            if note:
                notes.append(note)
    for i, r in enumerate(results):
        if r is not None:
            for v in r.get("violations", []):
                v.setdefault("job", jobs[i])
    agg = merge(results)
    ctx = {"tier": tier, "seed": seed, "root": root, "mod_name": mod_name,
           "run_job": lambda job, idx: run_job(mod_name, job, idx, root,
                                               timeout)}
    if hasattr(mod, "aggregate"):
        try:
            extra = mod.aggregate(jobs, results, ctx)
        except Exception:
            extra = None
            notes.append("aggregate failed: " + traceback.format_exc()[-2000:])
        if extra:
            agg2 = merge([extra])
            agg["n"] += agg2["n"]
            agg["sigs"].update(agg2["sigs"])
            for k, v in agg2["events"].items():
                agg["events"][k] = agg["events"].get(k, 0) + v
            for k, v in agg2["reached"].items():
                agg["reached"][k] = agg["reached"].get(k, 0) + v
            agg["violations"].extend(agg2["violations"])
            agg["samples"] = (agg2["samples"] + agg["samples"])[:8]
            agg["notes"].extend(agg2["notes"])
            agg["inconclusive"].extend(agg2["inconclusive"])
            for k, v in extra.items():
                if k.startswith("x_"):
                    agg[k] = v
    inconclusive = list(notes) + list(agg["inconclusive"])
    need = getattr(mod, "MUST_REACH", [])
    for m in need:
        if agg["reached"].get(m, 0) == 0:
            inconclusive.append(f"deciding monitor '{m}' was never reached")

    known, new = {}, []
    for v in agg["violations"]:
        kid = findings.classify(prop, v)
        if kid is None:
            new.append(v)
        else:
            known.setdefault(kid, []).append(v)
    if os.environ.get("VERIF_DUMP"):
        with open(os.environ["VERIF_DUMP"], "w") as f:
            json.dump([strip(v) for v in agg["violations"]], f, default=str)
    wall = time.time() - t0
    distinct = len(agg["sigs"])
    cov = {
        "evaluations": int(agg["n"]),
        "distinct_nontrivial": int(distinct),
        "rule": getattr(mod, "RULE", ""),
        "samples": agg["samples"][:8] or ["(none)"],
        "events_observed": agg["events"],
        "monitor_evaluations": agg["reached"],
        "jobs": len(jobs),
        "jobs_failed_or_timed_out": len(notes),
        "known_finding_hits": {k: len(v) for k, v in known.items()},
        "new_violations": len(new),
        "verdict": ("violated" if new else
                    "inconclusive" if inconclusive else "held_on_observed"),
    }
    for k, v in agg.items():
        if k.startswith("x_"):
            cov[k[2:]] = v
    if getattr(mod, "EXHAUSTIVE", False) or agg.get("x_exhaustive"):
        cov["exhaustive"] = True
    ev = {
        "property_id": prop, "tier": tier, "seed": int(seed),
        "level": getattr(mod, "LEVEL", "exploration"),
        "coverage": cov,
        "assumptions": list(getattr(mod, "ASSUMPTIONS", [])),
        "wall_s": round(wall, 2),
        "violations": len(new),
    }
    if not os.environ.get("VERIF_NOEVIDENCE"):  # set by tools/try_patch.sh
        os.makedirs(os.path.join(HERE, "evidence"), exist_ok=True)
        with open(os.path.join(HERE, "evidence", f"{prop}.json"), "w") as f:
            json.dump(ev, f, indent=1, sort_keys=True, default=str)

    print(f"[{prop}] tier={tier} seed={seed} jobs={len(jobs)} cases={agg['n']}"
          f" distinct_nontrivial={distinct} wall={wall:.1f}s")
    evs = ", ".join(f"{k}={v}" for k, v in sorted(agg["events"].items()))
    print(f"[{prop}] observed: {evs}")
    for kid, ws in sorted(known.items()):
        print(f"KNOWN-FINDING: property={prop} {kid}: "
              f"{findings.describe(prop, kid)} ({len(ws)} witnesses, e.g. "
              f"{json.dumps(strip(ws[0]), default=str)[:300]})")
    if new:
        seen = set()
        for v in new:
            key = (v.get("mech"), v.get("what"))
            if key in seen:
                continue
            seen.add(key)
            path = write_replay(prop, v)
            print(f"[{prop}] violation: {json.dumps(strip(v), default=str)[:1500]}")
            print(f"VIOLATION property={prop} replay={path}")
            if len(seen) >= 10:
                break
        return 1
    if inconclusive:
        for n in inconclusive[:10]:
            print(f"[{prop}] note: {n[:1500]}")
        print(f"INCONCLUSIVE property={prop} {len(inconclusive)} notes")
        return 2
    if distinct < 2:
        print(f"INCONCLUSIVE property={prop} fewer than two non-trivial cases")
        return 2
    print(f"[{prop}] held on everything observed")
    return 0


def strip(w):
    return {k: v for k, v in w.items() if k != "job"}


if __name__ == "__main__":
    sys.exit(main())
