"""Monitors riding on the scheduler rig (C02, C03, C04, C05, C07, C14, C17).

Every monitor only reads fields of the REPEX_state and intercepts the calls the
program itself makes; none calls ``state.prob`` (it may draw random numbers).
"""
import hashlib
import os
import random as pyrandom
import sys

import numpy as np

from vf.oracles.permanent import p_matrix
from vf.rig_sched import AbortCase, rng_ident, parse_data_file, read_restart


def idle_mask(state):
    return np.asarray(state._locks) == 0


# --------------------------------------------------------------------------
class ProbMonitor:
    """C02: every P the sampler computes equals the permanent ratios."""

    MAXBLOCK = 8

    def __init__(self):
        self.cache = {}
        self.patterns = set()

    def after_prob(self, rig, state, out):
        """The matrix the program is about to use (cache included) must be
        the P of the state and locks as they are now."""
        rig.reach("prob_property")
        self.after_inf_retis(rig, state, out, np.abs(state.state),
                             state._locks, where="state.prob")

    def after_inf_retis(self, rig, state, out, input_mat, locks,
                        where="inf_retis"):
        rig.reach("inf_retis")
        w = np.array(input_mat, dtype=float)
        lk = np.asarray(locks) == 1
        key = (w.tobytes(), lk.tobytes())
        idle = np.where(~lk)[0]
        out = np.asarray(out, dtype=float)
        # zero on busy rows / columns
        busy = np.where(lk)[0]
        if busy.size and (np.any(out[busy, :] != 0) or
                          np.any(out[:, busy] != 0)):
            rig.violate("P-nonzero-on-busy", "P non-zero on a busy row/column",
                        W=w.tolist(), locks=lk.tolist(), P=out.tolist())
        if len(idle) == 0:
            return
        sub = w[np.ix_(idle, idle)]
        if len(idle) > self.MAXBLOCK:
            rig.ev("P_too_large_for_oracle")
            return
        ref = self.cache.get(key)
        if ref is None:
            ref, tot = p_matrix(sub.tolist())
            self.cache[key] = ref if ref is not None else "none"
        if ref == "none" or ref is None:
            rig.violate("no-perfect-matching",
                        "idle block of W has zero permanent",
                        W=w.tolist(), locks=lk.tolist())
            return
        ref = np.array(ref, dtype=float)
        got = out[np.ix_(idle, idle)]
        self.patterns.add(((sub != 0).tobytes(), lk.tobytes()))
        rig.ev("P_checked")
        if np.any(sub != np.where(sub != 0, sub[sub != 0].flat[0], 0)):
            rig.ev("P_checked_unequal_weights")
        if not np.all(np.isfinite(got)):
            rig.violate("P-not-finite", "P contains NaN/inf", W=w.tolist(),
                        locks=lk.tolist(), P=out.tolist())
            return
        err = float(np.max(np.abs(got - ref)))
        # 1e-9 for 0/1 weights, 1e-6 for real weights (round-off of the
        # program's signed permanent formula, see C02)
        if err > (1e-9 if sub.max(initial=0) <= 1 else 1e-6):
            rig.violate("P-differs-from-permanent-ratio",
                        f"{where}: max |P - W_ij perm(W\\ij)/perm(W)| = "
                        f"{err:.3g}",
                        W=w.tolist(), locks=lk.tolist(), P=out.tolist(),
                        ref=ref.tolist())
        if np.any((sub == 0) & (got != 0)):
            rig.violate("P-nonzero-where-W-zero", "P>0 where W==0",
                        W=w.tolist(), locks=lk.tolist(), P=out.tolist())


# --------------------------------------------------------------------------
class LockMonitor:
    """C03: shadow in-flight table against _locks/_trajs/engine_occ."""

    def __init__(self):
        self.inflight = {}
        self.njob = 0
        self.locksets = set()
        self.zero_swaps = 0
        self.maxflight = 0

    def on_state(self, rig, state):
        self.inflight = {}

    def _check_table(self, rig, state, where):
        off = state._offset
        want = set()
        for j in self.inflight.values():
            want.update(e + off for e in j["ens"])
        have = set(int(i) for i in np.where(
            np.asarray(state._locks[:-1]) == 1)[0])
        self.locksets.add(tuple(sorted(have)))
        if want != have:
            rig.violate("locks-differ-from-inflight",
                        f"{where}: busy marks {sorted(have)} != ensembles of "
                        f"in-flight jobs {sorted(want)}",
                        inflight=list(self.inflight.values()))
        if state._locks[-1] != 1:
            rig.violate("ghost-unlocked", f"{where}: ghost slot unlocked")
        # locked slots hold exactly the paths of the in-flight jobs
        for j in self.inflight.values():
            for e, pn in zip(j["ens"], j["paths"]):
                t = state._trajs[e + off]
                if getattr(t, "path_number", None) != pn:
                    rig.violate("inflight-path-moved",
                                f"{where}: slot of ensemble {e} holds path "
                                f"{getattr(t, 'path_number', None)}, job has "
                                f"{pn}", job=j)

    def before_prep(self, rig, state, md_items):
        self._idle_before = set(int(i) for i in np.where(
            np.asarray(state._locks) == 0)[0])

    def after_prep(self, rig, state, out, md_items):
        rig.reach("prep_md_items")
        off = state._offset
        self.njob += 1
        jid = self.njob
        out["_vf_job"] = jid
        ens = [int(e) for e in out["ens_nums"]]
        paths = [int(out["picked"][e]["traj"].path_number) for e in ens]
        engs = []
        for e in ens:
            for k, i in out["picked"][e]["eng_idx"].items():
                engs.append((k, int(i)))
        job = {"id": jid, "ens": ens, "paths": paths, "pin": out["pin"],
               "w_folder": out["w_folder"], "engs": sorted(set(engs)),
               "exe_dirs": sorted(set(out["picked"][e]["exe_dir"]
                                      for e in ens))}
        for o in self.inflight.values():
            if set(o["ens"]) & set(ens):
                rig.violate("ensemble-shared", "two in-flight jobs share an "
                            "ensemble", a=o, b=job)
            if set(o["paths"]) & set(paths):
                rig.violate("path-shared", "two in-flight jobs share a path",
                            a=o, b=job)
            if set(map(tuple, o["engs"])) & set(engs):
                rig.violate("engine-shared", "two in-flight jobs share an "
                            "engine instance", a=o, b=job)
            if o["pin"] == job["pin"] or o["w_folder"] == job["w_folder"] \
                    or set(o["exe_dirs"]) & set(job["exe_dirs"]):
                rig.violate("workdir-shared", "two in-flight jobs share a "
                            "worker pin / directory", a=o, b=job)
        for e in ens:
            if (e + off) not in self._idle_before:
                rig.violate("picked-busy-ensemble",
                            f"job started in ensemble {e} that was busy",
                            job=job)
        if len(set(paths)) != len(paths):
            rig.violate("path-shared", "one job got the same path twice",
                        job=job)
        # non-zero weight of the path in its ensemble
        for e, pn in zip(ens, paths):
            wgt = state.state[e + off][e + off]
            if wgt == 0:
                rig.violate("zero-weight-job",
                            f"path {pn} has zero weight in ensemble {e}",
                            job=job, row=state.state[e + off].tolist())
            tr = out["picked"][e]["traj"]
            wv = getattr(tr, "weights", None)
            if wv is not None:
                mine = wv[0] if e < 0 else wv[e]
                if mine == 0:
                    rig.violate("zero-weight-job", f"path {pn} weights "
                                f"{wv} zero in ensemble {e}", job=job)
        if len(ens) == 2:
            self.zero_swaps += 1
            rig.ev("zero_swap_started")
            if sorted(ens) != [-1, 0]:
                rig.violate("bad-zero-swap", "two-ensemble job not [0-],[0+]",
                            job=job)
        # engine occupation table agrees
        for k, i in job["engs"]:
            if state.engine_occ[k][i] != job["pin"]:
                rig.violate("engine-occ-mismatch", "engine_occ does not "
                            "record the assignment", job=job,
                            occ={a: list(b) for a, b in
                                 state.engine_occ.items()})
        self.inflight[jid] = job
        self.maxflight = max(self.maxflight, len(self.inflight))
        rig.ev("jobs_started")
        rig.ev(f"inflight_{len(self.inflight)}")
        self._check_table(rig, state, "after prep_md_items")

    def before_treat(self, rig, state, md_items):
        jid = md_items.get("_vf_job")
        if jid not in self.inflight:
            rig.violate("unknown-job-returned", "treat_output got a job "
                        "that is not in flight", jid=jid)

    def after_treat(self, rig, state, out, md_items):
        rig.reach("treat_output")
        jid = md_items.get("_vf_job")
        self.inflight.pop(jid, None)
        rig.ev("jobs_completed")
        rig.ev("status_" + str(md_items.get("status")))
        self._check_table(rig, state, "after treat_output")
        # the restart file just written must record exactly the jobs that
        # are in flight now (they are what a restart re-issues)
        rec = state.config["current"].get("locked")
        if rec is not None and not getattr(rig, "no_restart_file", False):
            rig.reach("restart_locked_record")
            off = state._offset
            got = sorted((tuple(int(e) for e in a), tuple(str(x) for x in b))
                         for a, b in rec)
            want = sorted((tuple(e + off for e in j["ens"]),
                           tuple(str(p) for p in j["paths"]))
                          for j in self.inflight.values())
            if got != want:
                rig.violate("restart-file-locked-differs-from-inflight",
                            f"restart file records in-flight jobs {got}, "
                            f"actually in flight {want}")


# --------------------------------------------------------------------------
class FracMonitor:
    """C04: conservation of fractional weights + exactly-once data rows."""

    def __init__(self):
        self.idle_steps = None
        self.rows_written = {}
        self.before = None
        self._pcache = {}

    def on_state(self, rig, state):
        self.n = state.n
        if getattr(self, "_durable", None) is not None:
            # the previous process died after the restart file of its last
            # step had been written: that step counts
            self._count_step(self.n, self._durable)
            self._durable = None
        self._in_treat = False
        # a (re)started process: what counts as "already written" is what
        # the data file on disk holds now
        self.rows_written = {}
        try:
            for r in parse_data_file(state.data_file):
                self.rows_written[r["pn"]] = \
                    self.rows_written.get(r["pn"], 0) + 1
        except Exception:
            pass

    def _count_step(self, n, locks):
        if self.idle_steps is None:
            self.idle_steps = np.zeros(n, dtype=int)
        self.idle_steps += (np.asarray(locks) == 0).astype(int)

    def after_write_toml(self, rig, state, out):
        # the step is durable once its restart file is written; if the
        # process dies right after, the step still counts
        if getattr(self, "_in_treat", False):
            self._durable = np.asarray(state._locks).copy()

    def before_treat(self, rig, state, md_items):
        self._in_treat = True
        self._durable = None
        self.before = {pn: np.array(d["frac"], dtype=np.longdouble)
                       for pn, d in state.traj_data.items()}
        self.archived = {}

    def before_write_to_pathens(self, rig, state, pns):
        live = set(state.live_paths())
        for pn in pns:
            if pn in live:
                rig.violate("row-for-live-path", f"data row written for path "
                            f"{pn} which is still live")
            if pn in self.rows_written:
                rig.violate("row-twice", f"second data row for path {pn}")
            d = state.traj_data.get(pn)
            if d is not None:
                self.archived[pn] = (np.array(d["frac"], dtype=np.longdouble),
                                     tuple(d["weights"]))
        self._size_before = os.path.getsize(state.data_file)

    def after_write_to_pathens(self, rig, state, pns):
        rig.reach("write_to_pathens")
        with open(state.data_file) as f:
            f.seek(self._size_before)
            new = f.read()
        lines = [ln for ln in new.split("\n") if ln.strip()]
        if len(lines) != len(pns):
            rig.violate("row-count", f"{len(lines)} rows appended for "
                        f"{len(pns)} archived paths")
        for pn, ln in zip(pns, lines):
            self.rows_written[pn] = self.rows_written.get(pn, 0) + 1
            s = ln.split()
            if int(s[0]) != pn:
                rig.violate("row-wrong-path", f"row {s[0]} for path {pn}")
                continue
            rest = s[3:]
            half = len(rest) // 2
            fr = np.array([0 if r == "----" else np.longdouble(r)
                           for r in rest[:half]], dtype=np.longdouble)
            ws = [0.0 if r == "----" else float(r) for r in rest[half:]]
            if pn in self.archived:
                frac, wts = self.archived[pn]
                # columns of the row are ensembles 0..n-2
                want = frac[: self.n - 1]
                if len(fr) != self.n - 1 or not (np.max(np.abs(fr - want)) <= 1e-12):
                    rig.violate("row-frac-mismatch",
                                f"row of path {pn} {fr.tolist()} != "
                                f"accumulated {want.tolist()}")
                # weight column j must be the path's weight in ensemble j
                full = ([wts[0]] + [0.0] * (self.n - 2)) if len(wts) == 1 \
                    else [0.0] + list(wts[:-1])
                for j in range(min(len(ws), len(full))):
                    if fr[j] != 0 and not (abs(ws[j] - full[j]) <= 1e-9 * max(
                            1, abs(full[j]))):
                        rig.violate("row-weight-mismatch",
                                    f"row of path {pn}: weight column {j} "
                                    f"{ws[j]} != path weight {full[j]}")
            if pn in state.traj_data:
                rig.violate("row-not-popped", f"path {pn} still accounted "
                            "after its row was written")
        rig.ev("rows_written", len(pns))

    def after_treat(self, rig, state, out, md_items):
        rig.reach("frac_delta")
        n = state.n
        locks = np.asarray(state._locks)
        live = state.live_paths()
        locked = set(state.locked_paths())
        gain = np.zeros(n, dtype=np.longdouble)
        for idx, pn in enumerate(live):
            d = state.traj_data.get(pn)
            if d is None:
                rig.violate("live-path-unaccounted",
                            f"live path {pn} has no weight record")
                continue
            now = np.array(d["frac"], dtype=np.longdouble)
            was = self.before.get(pn, np.zeros(n, dtype=np.longdouble))
            delta = now - was
            if pn in locked:
                if np.any(delta != 0):
                    rig.violate("frac-to-busy-path",
                                f"busy path {pn} gained {delta.tolist()}")
                continue
            row = np.asarray(state.state[idx])
            bad = (row == 0) & (delta != 0)
            if np.any(bad):
                rig.violate("frac-where-weight-zero",
                            f"path {pn} gained weight in ensembles "
                            f"{np.where(bad)[0].tolist()} where its weight "
                            "is zero", delta=delta.tolist(), row=row.tolist())
            if np.any(delta < -1e-15):
                rig.violate("frac-decreased", f"path {pn}", delta=delta.tolist())
            gain += delta
        # each idle path's gain is its own row of the exact P matrix
        idle = np.where(locks == 0)[0]
        if 0 < len(idle) <= 8:
            sub = np.abs(np.asarray(state.state, dtype=float))[
                np.ix_(idle, idle)]
            key = sub.tobytes()
            ref = self._pcache.get(key)
            if ref is None:
                ref, _ = p_matrix(sub.tolist())
                self._pcache[key] = ref if ref is not None else "none"
            if ref is not None and ref != "none":
                rig.reach("frac_rows_vs_P")
                for a, i in enumerate(idle):
                    pn = live[i] if i < len(live) else None
                    d = state.traj_data.get(pn)
                    if d is None:
                        continue
                    delta = np.array(d["frac"], dtype=np.longdouble) - \
                        self.before.get(pn, np.zeros(n, dtype=np.longdouble))
                    want = np.zeros(n)
                    want[idle] = [float(x) for x in ref[a]]
                    if not (np.max(np.abs(np.asarray(delta, dtype=float) -
                                          want)) <= 1e-9):
                        rig.violate(
                            "frac-delta-not-P-row",
                            f"path {pn} gained {[float(x) for x in delta]} "
                            f"but its row of P is {want.tolist()}")
        # paths that are no longer live must not have gained anything
        for pn, was in self.before.items():
            if pn not in live and pn in state.traj_data:
                now = np.array(state.traj_data[pn]["frac"],
                               dtype=np.longdouble)
                if np.any(now != was):
                    rig.violate("frac-to-dead-path", f"path {pn}")
        for j in range(n):
            want = 0 if (locks[j] == 1) else 1
            if not (abs(float(gain[j]) - want) <= 1e-9):
                rig.violate("column-gain",
                            f"ensemble column {j} gained {float(gain[j])!r} "
                            f"instead of {want}", locks=locks.tolist(),
                            gain=[float(g) for g in gain])
        self._count_step(n, locks)
        self._durable = None
        self._in_treat = False
        if md_items.get("status") == "ACC":
            for pn in md_items["pnum_old"]:
                if self.rows_written.get(pn, 0) != 1:
                    rig.violate("row-missing", f"replaced path {pn} has "
                                f"{self.rows_written.get(pn, 0)} data rows")
        else:
            if self.archived:
                rig.violate("row-on-reject", "data row written for a "
                            "rejected move", rows=list(self.archived))
        rig.ev("frac_steps")

    def totals_check(self, rig, cdir, base_rows=None):
        """Offline: rows + live frac == number of idle steps per ensemble."""
        cfg = read_restart(cdir)
        n = cfg["current"]["size"] + 1
        tot = np.zeros(n - 1, dtype=np.longdouble)
        rows = parse_data_file(cfg["output"]["data_file"]
                               if os.path.isabs(cfg["output"]["data_file"])
                               else os.path.join(cdir,
                                                 cfg["output"]["data_file"]))
        seen = {}
        for r in rows:
            seen[r["pn"]] = seen.get(r["pn"], 0) + 1
            tot += np.array(r["frac"][: n - 1], dtype=np.longdouble)
        for pn, c in seen.items():
            if c != 1:
                rig.violate("row-twice", f"path {pn} has {c} rows in the "
                            "data file")
        active = set(cfg["current"]["active"])
        for pn in active:
            if pn in seen:
                rig.violate("row-for-live-path", f"active path {pn} has a "
                            "data row")
        for pn, fr in cfg["current"]["frac"].items():
            tot += np.array([np.longdouble(x) for x in fr],
                            dtype=np.longdouble)[: n - 1]
        rig.reach("totals")
        if self.idle_steps is not None:
            want = self.idle_steps[: n - 1]
            if not (np.max(np.abs(tot - want)) <= 1e-9 * max(1, want.max())):
                rig.violate("totals-mismatch",
                            f"rows+live per ensemble {[float(t) for t in tot]}"
                            f" != idle step counts {want.tolist()}")
        if cfg["runner"]["workers"] == 1:
            # one worker: nothing is busy when weights are recorded, so the
            # law reads "rows + live == step counter", whoever counts steps
            cstep = cfg["current"]["cstep"]
            rig.reach("totals_vs_cstep_one_worker")
            if not (np.max(np.abs(tot - cstep)) <= 1e-9 * max(1, cstep)):
                rig.violate("totals-differ-from-step-counter",
                            f"one worker: rows+live per ensemble "
                            f"{[float(t) for t in tot]} != cstep {cstep}")
        return [float(t) for t in tot]


# --------------------------------------------------------------------------
class StallMonitor:
    """C05: a job can always be drawn, sorting terminates, numbers fresh."""

    SWAP_CAP = 10000

    def __init__(self):
        self.maxpn = None
        self.everlive = set()
        self.in_sort = False
        self.sort_seen = None
        self.sorts_with_swaps = 0

    def on_state(self, rig, state):
        live = [p for p in state.live_paths()]
        self.everlive.update(live)
        self.maxpn = max(live + ([self.maxpn] if self.maxpn is not None
                                 else []))
        self._check_live(rig, state, "after load")

    def _check_live(self, rig, state, where):
        live = state.live_paths()
        if len(set(live)) != len(live):
            rig.violate("duplicate-live-path", f"{where}: live paths {live}")
        locks = np.asarray(state._locks)
        for i in range(state.n - 1):
            if locks[i] == 0 and state.state[i][i] == 0:
                rig.violate("idle-slot-zero-weight",
                            f"{where}: idle path {live[i]} sits in ensemble "
                            f"slot {i} with zero weight",
                            state=state.state.tolist())

    def pick_raised(self, rig, state, exc):
        rig.violate("pick-raised", f"pick raised {type(exc).__name__}: {exc}",
                    state=state.state.tolist(),
                    locks=np.asarray(state._locks).tolist())

    def prep_raised(self, rig, state, exc, md_items):
        rig.violate("prep-raised", f"prep_md_items raised "
                    f"{type(exc).__name__}: {exc}")

    def treat_raised(self, rig, state, exc, md_items):
        rig.violate("treat-raised", f"treat_output raised "
                    f"{type(exc).__name__}: {exc}",
                    status=md_items.get("status"))

    def inf_retis_raised(self, rig, state, exc, input_mat, locks):
        rig.violate("inf-retis-raised", f"inf_retis raised "
                    f"{type(exc).__name__}: {exc}",
                    W=np.asarray(input_mat, dtype=float).tolist(),
                    locks=np.asarray(locks).tolist())

    def after_inf_retis(self, rig, state, out, input_mat, locks):
        rig.reach("P_finite")
        o = np.asarray(out, dtype=float)
        lk = np.asarray(locks) == 1
        nidle = int((~lk).sum())
        if not np.all(np.isfinite(o)):
            rig.violate("P-not-finite", "P has NaN/inf", P=o.tolist())
        elif abs(o.sum() - nidle) > 1e-6:
            rig.violate("P-sum", f"P sums to {o.sum()} for {nidle} idle "
                        "ensembles", P=o.tolist())

    def after_pick(self, rig, state, out):
        rig.reach("pick")
        rig.ev("picks")

    def before_sort(self, rig, state):
        self.in_sort = True
        self.sort_seen = set()
        self.sort_swaps = 0

    def before_swap(self, rig, state, traj, ens):
        if not self.in_sort:
            return
        key = (tuple(t.path_number for t in state._trajs[:-1]),
               state.state.tobytes())
        self.sort_swaps += 1
        if key in self.sort_seen or self.sort_swaps > self.SWAP_CAP:
            rig.violate("sort-livelock", "sort_trajstate revisited a state: "
                        "it would never terminate",
                        state=state.state.tolist(),
                        locks=np.asarray(state._locks).tolist())
            self.in_sort = False
            raise AbortCase("sort livelock")
        self.sort_seen.add(key)

    def after_sort(self, rig, state, out):
        rig.reach("sort_trajstate")
        self.in_sort = False
        if self.sort_swaps:
            rig.ev("sorts_with_swaps")
            rig.ev("sort_swaps", self.sort_swaps)

    def after_treat(self, rig, state, out, md_items):
        self._check_live(rig, state, "after treat_output")
        live = state.live_paths()
        for pn in live:
            if pn not in self.everlive:
                if pn <= self.maxpn:
                    rig.violate("path-number-reused", f"new path number {pn} "
                                f"<= an earlier number {self.maxpn}")
                self.everlive.add(pn)
                self.maxpn = max(self.maxpn, pn)
        if state.config["current"]["traj_num"] <= self.maxpn:
            rig.violate("path-number-reused", "traj_num counter "
                        f"{state.config['current']['traj_num']} not above the "
                        f"largest number in use {self.maxpn}")


# --------------------------------------------------------------------------
def _glob_rng_digest():
    st = np.random.get_state()
    h = hashlib.sha1(st[1].tobytes())
    h.update(repr(st[2:]).encode())
    h.update(repr(pyrandom.getstate()[1][:8]).encode())
    h.update(repr(pyrandom.getstate()[1][-1]).encode())
    return h.hexdigest()


class StreamMonitor:
    """C07: identity log of the per-job random streams + purity of run_md.

    Oracle (independent of the repository): the move stream of the i-th
    ensemble of a job is ``default_rng(SeedSequence(seed, spawn_key=(idx, i)))``
    and its engine stream the child ``(idx, i, 0)``, where idx is the job's
    ordinal: consecutive within one process life time, starting at 0, and
    after a restart larger than every ordinal used before.  The single
    exception: the job that was handed out after the last restart-file write
    of a killed process may be re-made identically (same ensembles, paths and
    streams) - that is the same job replayed, which restart equivalence
    requires for one worker.
    """

    def __init__(self):
        self.jobs = []      # persists over segments
        self.sched = []
        self.after_last_write = []
        self.seed = None

    def on_state(self, rig, state):
        self.sched.append(rng_ident(state.rgen))
        self.seed = int(state.config["simulation"]["seed"])
        self.after_last_write = []

    def after_write_toml(self, rig, state, out):
        self.after_last_write = []

    def end_segment(self, rig, killed=False):
        if killed:
            for j in self.after_last_write:
                self.jobs[j]["lost"] = True

    @staticmethod
    def _ref(seed, key):
        g = np.random.default_rng(np.random.SeedSequence(
            entropy=seed, spawn_key=tuple(key)))
        return rng_ident(g)["state"]

    def after_prep(self, rig, state, out, md_items):
        rig.reach("stream_ident")
        ordinal = len(self.jobs)
        rec = {"ordinal": ordinal, "segment": rig.segment,
               "cstep": int(state.cstep),
               "ens": [int(e) for e in out["ens_nums"]],
               "paths": [int(p) for p in out["pnum_old"]], "streams": []}
        sch = rng_ident(state.rgen)
        for pos, e in enumerate(out["ens_nums"]):
            mv = rng_ident(out["picked"][e]["ens"]["rgen"])
            en = rng_ident(out["picked"][e]["rgen-eng"])
            rec["streams"].append({"ens": int(e), "move": mv, "eng": en})
            for nm, s in (("move", mv), ("eng", en)):
                if s["state"] == sch["state"] or (
                        s["entropy"] == sch["entropy"] and
                        s["spawn_key"] == sch["spawn_key"]):
                    rig.violate("job-shares-scheduler-stream",
                                f"{nm} stream of job {ordinal} equals the "
                                "scheduler stream", stream=s)
            # reference children
            key = mv["spawn_key"]
            ok = (mv["entropy"] == self.seed and len(key) == 2 and
                  key[1] == pos and
                  mv["state"] == self._ref(self.seed, key) and
                  en["entropy"] == self.seed and
                  en["spawn_key"] == key + [0] and
                  en["state"] == self._ref(self.seed, key + [0]))
            if not ok:
                rig.violate(
                    "stream-not-child-of-seed:after-restart" if rig.segment
                    else "stream-not-child-of-seed",
                    f"streams of job {ordinal} ensemble #{pos} are not the "
                    f"children (idx,{pos}) / (idx,{pos},0) of seed "
                    f"{self.seed}", move=mv, eng=en)
        rec["idx"] = rec["streams"][0]["move"]["spawn_key"][0] \
            if rec["streams"][0]["move"]["spawn_key"] else None
        self.after_last_write.append(ordinal)
        self.jobs.append(rec)
        rig.ev("streams_logged", 2 * len(out["ens_nums"]))

    def before_run_md(self, rig, md_items):
        self._dig = _glob_rng_digest()

    def after_run_md(self, rig, md_items):
        rig.reach("purity")
        if _glob_rng_digest() != self._dig:
            rig.violate("global-rng-used", "the global numpy/random state "
                        "changed during a move", ens=md_items.get("ens_nums"))
        rig.ev("purity_checked")

    def _same_job(self, a, b):
        return (a["ens"] == b["ens"] and a["paths"] == b["paths"] and
                a["streams"] == b["streams"])

    def finish(self, rig):
        """Distinctness and ordinal law over the whole history."""
        seen_id, seen_st = {}, {}
        replayed = set()
        for rec in self.jobs:
            for s in rec["streams"]:
                for nm in ("move", "eng"):
                    st = s[nm]
                    kid = (repr(st["entropy"]), tuple(st["spawn_key"]))
                    who = (rec["ordinal"], s["ens"], nm)
                    for tab, key, tag in ((seen_id, kid, "seed-sequence"),
                                          (seen_st, st["state"], "state")):
                        if key not in tab:
                            tab[key] = who
                            continue
                        o = tab[key]
                        first = self.jobs[o[0]]
                        if first.get("lost") and \
                                first["segment"] < rec["segment"] and \
                                self._same_job(first, rec):
                            replayed.add(rec["ordinal"])
                            continue
                        mech = ("stream-reused-across-restart"
                                if first["segment"] != rec["segment"]
                                else "stream-reused")
                        rig.violate(
                            mech, f"{tag} of {nm} stream of job "
                            f"{rec['ordinal']} (segment {rec['segment']},"
                            f" ens {s['ens']}) equals that of job {o[0]}"
                            f" (segment {first['segment']}, "
                            f"ens {o[1]}, {o[2]})", a=first, b=rec)
        rig.ev("lost_jobs_replayed", len(replayed))
        # ordinal law
        prev = None
        maxidx = -1
        for rec in self.jobs:
            idx = rec.get("idx")
            if idx is None:
                continue
            if prev is None:
                if idx != 0:
                    rig.violate("ordinal-law", f"first job has stream index "
                                f"{idx}, not 0", job=rec)
            elif prev["segment"] == rec["segment"]:
                if idx != prev["idx"] + 1:
                    rig.violate("ordinal-law", f"job {rec['ordinal']} has "
                                f"stream index {idx} after {prev['idx']} in "
                                "the same process", job=rec)
            else:
                if idx <= maxidx and rec["ordinal"] not in replayed:
                    rig.violate("ordinal-law:after-restart",
                                f"first job after a restart has stream index "
                                f"{idx} <= an index used before ({maxidx})",
                                job=rec)
            maxidx = max(maxidx, idx)
            prev = rec
        rig.reach("ordinal_law")
        return len(seen_id)


# --------------------------------------------------------------------------
class CountMonitor:
    """C17: number of completed moves per segment."""

    def __init__(self):
        self.treated = 0
        self.submitted = 0
        self.per_segment = []

    def on_state(self, rig, state):
        self.per_segment.append({"start_cstep": int(state.cstep),
                                 "treated": 0, "submitted": 0})

    def on_submit(self, rig, md_items):
        self.submitted += 1
        self.per_segment[-1]["submitted"] += 1

    def after_treat(self, rig, state, out, md_items):
        rig.reach("count_treat")
        self.treated += 1
        self.per_segment[-1]["treated"] += 1
        seg = self.per_segment[-1]
        if int(state.cstep) != seg["start_cstep"] + seg["treated"]:
            rig.violate("cstep-not-count", f"cstep {state.cstep} after "
                        f"{seg['treated']} completed moves from "
                        f"{seg['start_cstep']}")
        if int(state.cstep) > int(state.tsteps):
            rig.violate("too-many-steps", f"move {state.cstep} completed "
                        f"although only {state.tsteps} were requested")


# --------------------------------------------------------------------------
class DeleteMonitor:
    """C14: audit-hook watch of removals under load/ during the run."""

    _installed = False
    _active = None

    def __init__(self, cdir, n_init):
        self.cdir = os.path.realpath(cdir)
        self.load = os.path.join(self.cdir, "load")
        self.n_init = n_init
        self.replaced_order = []   # path numbers in order of replacement
        self.removed = []
        self.state = None
        DeleteMonitor._active = self
        if not DeleteMonitor._installed:
            sys.addaudithook(DeleteMonitor._hook)
            DeleteMonitor._installed = True

    @staticmethod
    def _hook(event, args):
        m = DeleteMonitor._active
        if m is None or m.state is None:
            return
        if event in ("os.remove", "os.rmdir"):
            try:
                m.on_remove(event, os.fspath(args[0]))
            except AbortCase:
                raise
            except Exception as exc:  # never let the monitor break the run
                m.rig.ev("delete_monitor_error")
        elif event in ("os.rename", "shutil.move"):
            try:
                src = os.fspath(args[0])
                m.on_move(src, os.fspath(args[1]))
            except Exception:
                pass

    def on_state(self, rig, state):
        self.state = state
        self.rig = rig
        self.lag = state.n - 1
        self.replaced_order = []  # the program's own list restarts too
        self.pending = 0

    def end_segment(self, rig, killed=False):
        self.state = None

    def before_treat(self, rig, state, md_items):
        self.pending = len(md_items["pnum_old"]) \
            if md_items.get("status") == "ACC" else 0

    def after_treat(self, rig, state, out, md_items):
        self.pending = 0
        if md_items.get("status") == "ACC":
            for pn in md_items["pnum_old"]:
                self.replaced_order.append(int(pn))

    def _refs(self):
        refs = {}
        st = self.state
        for t in st._trajs[:-1]:
            for a in getattr(t, "adress", set()):
                refs[os.path.realpath(a)] = ("live", t.path_number)
        try:
            cfg = read_restart(self.cdir)
            for pn in cfg["current"]["active"]:
                d = os.path.join(self.load, str(pn))
                refs[os.path.realpath(d) + os.sep] = ("restart-active", pn)
        except Exception:
            pass
        return refs

    def on_move(self, src, dst):
        rs = os.path.realpath(os.path.join(os.getcwd(), src))
        if not rs.startswith(self.load + os.sep):
            return
        refs = self._refs()
        if rs in refs and refs[rs][0] == "live":
            self.rig.violate("moved-live-file", f"{rs} referenced by live "
                             f"path {refs[rs][1]} was moved to {dst}")

    def on_remove(self, event, target):
        rt = os.path.realpath(os.path.join(os.getcwd(), target))
        if not rt.startswith(self.load + os.sep):
            return
        self.rig.reach("delete_watch")
        self.rig.ev("removals_under_load")
        rel = os.path.relpath(rt, self.load).split(os.sep)
        try:
            pn = int(rel[0])
        except ValueError:
            return
        self.removed.append((event, rt))
        if pn < self.n_init:
            self.rig.violate("initial-path-touched",
                             f"{event} on {rt}: initial path {pn}")
        refs = self._refs()
        if rt in refs:
            self.rig.violate("deleted-live-file", f"{event} {rt} referenced "
                             f"by {refs[rt][0]} path {refs[rt][1]}")
        for k, v in refs.items():
            if k.endswith(os.sep) and (rt + os.sep).startswith(k):
                # a removal inside the directory of an active path of the
                # restart file that is on disk right now
                self.rig.violate("deleted-active-path-file",
                                 f"{event} {rt} inside active path "
                                 f"{v[1]} of the restart file on disk")
        live = set(self.state.live_paths())
        if pn in live:
            self.rig.violate("deleted-live-file", f"{event} {rt}: path {pn} "
                             "is live")
        # lag: at least `lag` paths were replaced after pn
        if pn in self.replaced_order:
            # paths replaced by the step being treated are appended only
            # after it returns; all but one of them may already be counted
            # by the program (zero swaps replace two paths in one step)
            later = len(self.replaced_order) - 1 - \
                self.replaced_order.index(pn) + max(0, self.pending - 1)
            if later < self.lag - 1:
                self.rig.violate("deleted-before-lag",
                                 f"{event} {rt}: only {later} paths replaced "
                                 f"after path {pn}, lag is {self.lag - 1}")
        else:
            self.rig.violate("deleted-unreplaced-path",
                             f"{event} {rt}: path {pn} was not replaced in "
                             "this run")


# --------------------------------------------------------------------------
def _frame_content(config):
    """(x, v) of the frame a lattice config tuple references."""
    from vf.plugins.lattice import read_frames
    fn, idx = config
    fr = read_frames(fn)
    return fr[0 if idx is None else idx]


def _file_digest(fn):
    try:
        with open(fn, "rb") as f:
            return hashlib.sha1(f.read()).hexdigest()
    except OSError:
        return None


def path_snapshot(path):
    return {"n": path.length,
            "frames": [(tuple(float(o) for o in p.order), tuple(p.config),
                        bool(p.vel_rev)) for p in path.phasepoints],
            "files": {a: _file_digest(a) for a in path.adress},
            "number": path.path_number}


def membership(path, ens, ens_num, subcycles=1, lattice=True, shift=0.0):
    """Violations (list of (mech, text)) of 'path belongs to ensemble'."""
    out = []
    left, mid, right = ens["interfaces"]
    sc = ens["start_cond"]
    sc = set(sc) if not isinstance(sc, str) else {sc}
    orders = [float(p.order[0]) for p in path.phasepoints]
    maxlen = ens["tis_set"]["maxlength"]
    if len(orders) < 3:
        out.append(("acc-too-short", f"accepted path has {len(orders)} frames"))
        return out
    if len(orders) > maxlen:
        out.append(("acc-exceeds-maxlength",
                    f"length {len(orders)} > limit {maxlen}"))

    def side(v):
        if v < left:
            return "L"
        if v > right:
            return "R"
        return None
    s0, s1 = side(orders[0]), side(orders[-1])
    if s0 is None or s0 not in sc:
        out.append(("acc-bad-start", f"first frame {orders[0]} is on side "
                    f"{s0}, ensemble allows {sorted(sc)} "
                    f"(interfaces {left},{right})"))
    if s1 is None:
        out.append(("acc-ends-inside", f"last frame {orders[-1]} lies "
                    f"between the interfaces {left},{right}"))
    elif ens_num == -1 and sc == {"R"} and s1 != "R":
        out.append(("acc-bad-end", f"[0-] path ends on side {s1}"))
    for k, v in enumerate(orders[1:-1]):
        if side(v) is not None:
            out.append(("acc-interior-outside", f"interior frame {k + 1} "
                        f"at {v} is outside ({left},{right})"))
            break
    if ens_num >= 0 and not max(orders) > mid:
        out.append(("acc-not-crossing", f"max order {max(orders)} does not "
                    f"cross the ensemble interface {mid}"))
    if lattice:
        for a, b in zip(orders, orders[1:]):
            if abs(a - b) > subcycles + 1e-9:
                out.append(("acc-not-time-ordered", f"consecutive frames "
                            f"{a} -> {b} are not neighbours in time"))
                break
        last = {}
        for k, p in enumerate(path.phasepoints):
            fn, idx = p.config
            try:
                x, v = _frame_content(p.config)
            except Exception as exc:
                out.append(("acc-frame-unreadable", f"frame {k} -> {fn}:{idx}"
                            f" {type(exc).__name__}"))
                break
            if float(x) + shift != float(p.order[0]):
                out.append(("acc-order-not-of-frame", f"frame {k} stores "
                            f"order {p.order[0]} but {os.path.basename(fn)}:"
                            f"{idx} holds x={x}"))
                break
            if fn in last and idx is not None and last[fn][0] is not None:
                pidx, prev_rev = last[fn]
                if prev_rev == bool(p.vel_rev):
                    if (idx <= pidx) != bool(p.vel_rev) and idx != pidx:
                        out.append(("acc-not-time-ordered", f"frame {k}: "
                                    f"index {idx} after {pidx} in {fn} with "
                                    f"vel_rev={p.vel_rev}"))
                        break
            last[fn] = (idx, bool(p.vel_rev))
    return out


class MoveMonitor:
    """C09/C11 riders: what run_md returns, for every move of a history."""

    def __init__(self, check_zero_swap=True, subcycles=1, shift=0.0,
                 lattice=True):
        self.snap = None
        self.check_zero_swap = check_zero_swap and lattice
        self.subcycles = subcycles
        self.shift = float(shift)   # order = lattice site + shift
        self.lattice = lattice      # False: a real MD engine (no site files)

    def before_run_md(self, rig, md_items):
        self.snap = {e: path_snapshot(md_items["picked"][e]["traj"])
                     for e in md_items["picked"]}
        self.old = {e: md_items["picked"][e]["traj"]
                    for e in md_items["picked"]}
        self.oldframes = {}
        for e, p in self.old.items():
            try:
                self.oldframes[e] = [(_frame_content(q.config), bool(q.vel_rev))
                                     for q in (p.phasepoints[:2] +
                                               p.phasepoints[-2:])]
            except Exception:
                self.oldframes[e] = None

    def after_run_md(self, rig, out):
        rig.reach("move_result")
        status = out["status"]
        rig.ev("moves_" + "+".join(out["moves"]) + "_" + status)
        for e in out["picked"]:
            pk = out["picked"][e]
            new = pk["traj"]
            ens = pk["ens"]
            if status != "ACC":
                rig.reach("reject_untouched")
                after = path_snapshot(new)
                if new is not self.old[e]:
                    rig.violate("rejected-move-replaced-path",
                                f"status {status} but run_md put another "
                                f"path object into ensemble {e}")
                if after["frames"] != self.snap[e]["frames"]:
                    k = next((i for i, (a, b) in enumerate(zip(
                        after["frames"], self.snap[e]["frames"])) if a != b),
                        None)
                    rig.violate("rejected-move-changed-old-path",
                                f"status {status}: frames of the old path of "
                                f"ensemble {e} changed (first at {k}: "
                                f"{self.snap[e]['frames'][k] if k is not None else None}"
                                f" -> {after['frames'][k] if k is not None else None})",
                                move=out["moves"])
                elif after["files"] != self.snap[e]["files"]:
                    rig.violate("rejected-move-changed-old-files",
                                f"status {status}: files of the old path of "
                                f"ensemble {e} changed or vanished",
                                move=out["moves"])
                continue
            rig.reach("membership")
            for mech, txt in membership(new, ens, e, self.subcycles,
                                        shift=self.shift,
                                        lattice=self.lattice):
                rig.violate(mech, f"{'+'.join(out['moves'])} in ensemble {e} "
                            f"accepted: {txt}",
                            orders=[float(p.order[0])
                                    for p in new.phasepoints][:60],
                            interfaces=list(ens["interfaces"]),
                            generated=str(new.generated))
            w = new.weights
            mine = None if w is None else (w[0] if e < 0 else w[e])
            if not mine:
                rig.violate("acc-zero-weight", f"accepted path has weight "
                            f"{mine} in its own ensemble {e}",
                            weights=str(w))
            gen = new.generated
            if len(out["picked"]) == 1 and gen and gen[0] == "sh":
                rig.reach("shooting_point")
                old = self.snap[e]
                idx_old, idx_new = int(gen[2]), int(gen[3])
                if not 1 <= idx_old <= old["n"] - 2:
                    rig.violate("shooting-point-is-end-point",
                                f"shooting index {idx_old} of a path of "
                                f"length {old['n']}")
                elif not (0 <= idx_new < new.length) or not (
                        abs(float(new.phasepoints[idx_new].order[0]) -
                            old["frames"][idx_old][0][0]) <=
                        (0.0 if self.lattice else 2e-6)):
                    # (a real engine recomputes the order parameter of the
                    # shooting point; a reloaded old path carries the six
                    # decimals of order.txt)
                    rig.violate("acc-without-shooting-point",
                                f"frame {idx_new} of the new path is not the "
                                f"shooting point (old frame {idx_old})")
        if len(out["picked"]) == 2 and status == "ACC" and \
                self.check_zero_swap and self.oldframes.get(-1) and \
                self.oldframes.get(0):
            rig.reach("zero_swap_frames")
            new0, new1 = out["picked"][-1]["traj"], out["picked"][0]["traj"]

            def eff(fc, rev):
                (x, v) = fc
                return (x, -v if rev else v)
            try:
                end0 = [eff(_frame_content(p.config), p.vel_rev)
                        for p in new0.phasepoints[-2:]]
                start1 = [eff(_frame_content(p.config), p.vel_rev)
                          for p in new1.phasepoints[:2]]
            except Exception as exc:
                rig.violate("zero-swap-frame-unreadable", str(exc))
                return
            want0 = [eff(*f) for f in self.oldframes[0][:2]]
            want1 = [eff(*f) for f in self.oldframes[-1][-2:]]
            if end0 != want0:
                rig.violate("zero-swap-wrong-crossing-frames:[0-]",
                            f"new [0-] path ends with {end0}, the old [0+] "
                            f"path began with {want0}")
            if start1 != want1:
                rig.violate("zero-swap-wrong-crossing-frames:[0+]",
                            f"new [0+] path starts with {start1}, the old "
                            f"[0-] path ended with {want1}")


# --------------------------------------------------------------------------
class WeightVectorMonitor:
    """C10 rider: the weight vector (and the reported extremes) that run_md
    attaches to every accepted path must be that of the frames the path
    actually holds - whatever chain of copies, pastes and extensions inside
    the move produced it."""

    def on_state(self, rig, state):
        """Paths loaded at a (re)start get their weights from load_paths."""
        from vf.oracles import wfseg
        sim = state.config["simulation"]
        intf = [float(x) for x in sim["interfaces"]]
        moves = list(sim["shooting_moves"])
        cap = sim["tis_set"].get("interface_cap")
        for slot, traj in enumerate(state._trajs[:-1]):
            orders = [float(p.order[0]) for p in traj.phasepoints]
            want = (1.0,) if slot == 0 else wfseg.weight_vector(
                orders, intf, moves, cap)
            got = None if traj.weights is None else \
                tuple(float(x) for x in traj.weights)
            rig.reach("loaded_weight_vector")
            rig.ev("loaded_weight_vectors")
            if got != tuple(want):
                rig.violate("loaded-weight-vector-differs-from-oracle",
                            f"path {traj.path_number} loaded into slot "
                            f"{slot}: load_paths weights {got}, oracle on "
                            f"the path's frames {tuple(want)}",
                            orders=orders[:80], interfaces=intf,
                            mc_moves=moves, cap=cap, segment=rig.segment)
            # the matrix row the sampler uses must be that vector too
            row = [float(x) for x in state.state[slot][:len(want) if slot
                                                       else 1]]
            if slot and row[1:len(want)] != list(want)[:len(want) - 1]:
                rig.violate("loaded-state-row-differs-from-oracle",
                            f"path {traj.path_number}: state row {row}, "
                            f"oracle {tuple(want)}", segment=rig.segment)

    def after_run_md(self, rig, out):
        from vf.oracles import wfseg
        picked = list(out["picked"])
        ops = list(out.get("trial_op", []))[-len(picked):]
        for k, e in enumerate(picked):
            new = out["picked"][e]["traj"]
            if out["status"] != "ACC":
                continue
            orders = [float(p.order[0]) for p in new.phasepoints]
            if k < len(ops):
                rig.reach("acc_reported_extremes")
                if (float(ops[k][0]), float(ops[k][1])) != (min(orders),
                                                            max(orders)):
                    rig.violate("reported-extremes-differ-from-frames",
                                f"ensemble {e}: run_md reports (min, max) = "
                                f"{tuple(map(float, ops[k]))}, the frames "
                                f"have {(min(orders), max(orders))}",
                                moves=list(out["moves"]))
            intf = [float(x) for x in out["interfaces"]]
            moves = list(out["mc_moves"])
            # the CONFIGURED cap, not the copy that travels with the job
            cap = out.get("cap")
            if getattr(rig, "state", None) is not None:
                cap = rig.state.config["simulation"]["tis_set"].get(
                    "interface_cap")
            if e < 0:
                want = (1.0,)
            else:
                want = wfseg.weight_vector(orders, intf, moves, cap)
            got = None if new.weights is None else \
                tuple(float(x) for x in new.weights)
            rig.reach("acc_weight_vector")
            rig.ev("acc_weight_vectors_" + "+".join(out["moves"]))
            if got != tuple(want):
                rig.violate("acc-weight-vector-differs-from-oracle",
                            f"{'+'.join(out['moves'])} accepted in ensemble "
                            f"{e}: run_md weights {got}, oracle on the "
                            f"path's frames {tuple(want)}",
                            orders=orders[:80], interfaces=intf,
                            mc_moves=moves, cap=cap,
                            cap_in_job=out.get("cap"))


# --------------------------------------------------------------------------
class ExeDirMonitor:
    """C03 rider on the engine side: whatever the scheduler's bookkeeping
    says, the directory an engine object actually works in while it serves a
    job must be that job's worker directory, and an engine object serves one
    job at a time."""

    def before_run_md(self, rig, md_items):
        from infretis.classes.engines.enginebase import EngineBase
        self.expect = {os.path.realpath(v["exe_dir"])
                       for v in md_items["picked"].values()}
        self.orig = EngineBase.propagate
        mon, orig = self, EngineBase.propagate

        def propagate(eng, *a, **kw):
            rig.reach("engine_exe_dir")
            got = os.path.realpath(eng.exe_dir)
            if got not in mon.expect:
                rig.violate("engine-runs-in-foreign-directory",
                            f"engine {type(eng).__name__} propagates in "
                            f"{got}, the job was given {sorted(mon.expect)}",
                            ens=list(md_items["picked"]))
            return orig(eng, *a, **kw)
        EngineBase.propagate = propagate

    def after_run_md(self, rig, out):
        from infretis.classes.engines.enginebase import EngineBase
        EngineBase.propagate = self.orig


# --------------------------------------------------------------------------
class VelSettingsMonitor:
    """C16 rider: every velocity regeneration of a move - also those of the
    sub-moves of a wire-fencing move - must be asked for with the velocity
    settings of the configuration (zero_momentum in particular)."""

    def before_run_md(self, rig, md_items):
        import infretis.core.tis as itis
        self.want = rig.state.config["simulation"]["tis_set"].get(
            "zero_momentum")
        self.wrapped = []
        mon = self
        for name, engs in itis.ENGINES.items():
            for eng in engs:
                orig = eng.modify_velocities

                def mv(system, vel_settings, _o=orig, _e=eng):
                    rig.reach("velocity_settings_passed")
                    got = vel_settings.get("zero_momentum", "<absent>") \
                        if isinstance(vel_settings, dict) else "<no dict>"
                    if got != mon.want:
                        rig.violate(
                            "velocity-settings-not-passed-to-engine",
                            f"modify_velocities was asked with zero_momentum="
                            f"{got!r}, the configuration says {mon.want!r}",
                            moves=[md_items["mc_moves"][e + 1]
                                   for e in md_items["picked"]])
                    return _o(system, vel_settings)
                eng.modify_velocities = mv
                self.wrapped.append((eng, orig))

    def after_run_md(self, rig, out):
        for eng, orig in self.wrapped:
            try:
                del eng.modify_velocities
            except AttributeError:
                eng.modify_velocities = orig
        self.wrapped = []
