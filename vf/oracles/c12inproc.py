"""C12 workloads for the in-process engines: plug-in Lattice/Ballistic,
TurtleMD (LangevinInertia) and ASE (VelocityVerlet / Langevin)."""
import os

from vf.oracles.c12judge import judge_path, judge_retrace, scaled, sgn

ORDERS3D = [
    {"class": "Position", "index": [0, 0], "periodic": False},
    {"class": "Position", "index": [1, 0], "periodic": False},
    {"class": "Distance", "index": [0, 1], "periodic": True},
    {"class": "Distance", "index": [0, 1], "periodic": False},
    {"class": "Velocity", "index": 0, "dim": "x"},
    {"class": "Velocity", "index": 1, "dim": "y"},
    {"class": "Distancevel", "index": [0, 1], "periodic": True},
]


def r6(v):
    return round(v, 6)


def repo_examples():
    import infretis
    return os.path.join(os.path.dirname(os.path.dirname(infretis.__file__)),
                        "examples")


# --------------------------------------------------------------------------
# in-process engines
# --------------------------------------------------------------------------
def run_inproc(out, kind, engine, spec, case, start_cfg, start_rev, reverse,
               left, right, maxlen, truth=None, expect=None, tol_ind=1e-9):
    from infretis.classes.path import Path
    from infretis.classes.system import System
    from vf.oracles import trajref as tr
    start = tr.read_frame(start_cfg)
    if case.get("box") is not None and start["box"] is None:
        start["box"] = case["box"]
    system = System()
    system.config, system.vel_rev = start_cfg, start_rev
    path = Path(maxlen=maxlen)
    ens = {"ens_name": "003", "interfaces": (left, (left + right) / 2, right)}
    out.res["n"] += 1
    try:
        success, _ = engine.propagate(path, ens, system, reverse=reverse)
    except Exception as exc:
        out.viol(f"{kind}:propagate-raised-on-healthy-program",
                 f"{type(exc).__name__}: {exc}"[:300], case)
        return None
    out.ev(f"{kind}:propagations")
    out.ev(f"{kind}:reverse" if reverse else f"{kind}:forward")
    res = judge_path(out, kind, engine, spec, case, path, success, start,
                     start_rev, reverse, left, right, maxlen, truth, expect,
                     None, tol_ind=tol_ind, tol_truth=1e-6)
    if path.length >= 2:
        out.res["sigs"].append("|".join(str(c) for c in (
            kind, spec, reverse, start_rev, maxlen, case.get("subcycles"),
            path.length, bool(success), case.get("sigx"))))
    if res is not None:
        res["path"] = path
    return res


def lattice_cases(out, job, scratch, rng):
    import numpy as np
    from vf.plugins.lattice import BallisticEngine, LatticeEngine, SiteOrder
    wdir = os.path.join(scratch, "lat")
    os.makedirs(wdir, exist_ok=True)
    for i in range(job["ballistic"] + job["lattice"]):
        ball = i < job["ballistic"]
        nsub = rng.choice([1, 1, 2, 3, 7, 10])
        usev = rng.random() < 0.5
        spec = {"class": "Site", "velocity": usev}
        lo, hi = -rng.randint(2, 9), rng.randint(3, 12)
        if ball:
            eng = BallisticEngine(subcycles=nsub, lo=lo, hi=hi)
        else:
            eng = LatticeEngine(subcycles=nsub, wall=lo)
        eng.order_function = SiteOrder(velocity=usev)
        eng.exe_dir = wdir
        eng.rgen = np.random.default_rng(rng.randrange(2 ** 31))
        x0, v0 = rng.randint(lo + 1, hi - 1), rng.choice([-1, 1])
        start_rev, reverse = rng.random() < 0.3, rng.random() < 0.5
        maxlen = rng.choice([2, 3, 5, 8, 13, 30, 60])
        left = rng.randint(lo - 1, x0) - 0.4 if rng.random() < .8 else -99.4
        right = rng.randint(x0, hi + 1) + 0.6 if rng.random() < .8 else 99.6
        if rng.random() < 0.08:
            left, right = x0 + 0.6, x0 + 5.6       # start outside
        f = os.path.join(wdir, f"s{i}.lat")
        with open(f, "w") as fh:
            fh.write(f"{x0} {v0}\n")
        case = {"engine": "ballistic" if ball else "lattice", "x0": x0,
                "v0": v0, "lo": lo, "hi": hi, "subcycles": nsub,
                "order": spec, "reverse": reverse, "start_vel_rev": start_rev,
                "maxlen": maxlen, "interfaces": [left, right],
                "sigx": (x0, v0, lo, hi, left, right)}
        truth = expect = None
        if ball:  # the ballistic dynamics is known: simulate it independently
            x, v = x0, v0 * int(sgn(start_rev) * sgn(reverse))
            truth = []
            for _ in range(maxlen + 1):
                truth.append({"x": [[float(x), 0., 0.]],
                              "v": [[float(v), 0., 0.]], "box": None})
                for _ in range(nsub):
                    if v == 0:
                        v = 1
                    if lo <= x + v <= hi:
                        x += v
                    else:
                        v = -v
            orders = [t["x"][0][0] + (0.25 * t["v"][0][0] * sgn(reverse)
                                      if usev else 0.0) for t in truth]
            c = next((k for k in range(maxlen) if not
                      left < orders[k] < right), None)
            if c is None:
                expect = {"len": maxlen, "success": False}
            elif c < maxlen - 1:
                expect = {"len": c + 1, "success": True}
        res = run_inproc(out, case["engine"], eng, spec, case, (f, 0),
                         start_rev, reverse, left, right, maxlen, truth,
                         expect, tol_ind=1e-12)
        if ball and res and len(res["frames"]) >= 3 and not reverse and \
                not start_rev and rng.random() < 0.7:
            k = rng.randint(1, len(res["frames"]) - 1)
            pp = res["path"].phasepoints[k]
            bcase = dict(case, reverse=True, label=f"backward from frame {k}")
            bwd = run_inproc(out, "ballistic", eng, spec, bcase, pp.config,
                             False, True, -99.4, 99.6, k + 3, None, None,
                             tol_ind=1e-12)
            if bwd:
                judge_retrace(out, "ballistic", bcase, res, bwd, k, 1e-12)
        for fn in os.listdir(wdir):
            os.remove(os.path.join(wdir, fn))


def turtle_cases(out, job, scratch, rng):
    import numpy as np
    from infretis.classes.engines.turtlemdengine import TurtleMDEngine
    from infretis.classes.orderparameter import create_orderparameter
    from vf.stubs import stublib as sl
    wdir = os.path.join(scratch, "tmd")
    os.makedirs(wdir, exist_ok=True)
    for i in range(job["turtle"]):
        one_d = rng.random() < 0.5
        nsub = rng.choice([1, 2, 3, 10])
        temp = rng.choice([0.07, 0.3, 1.0])
        integ = {"class": "LangevinInertia", "settings": {
            "gamma": rng.choice([0.3, 1.0, 5.0]), "beta": 1.0 / temp}}
        if one_d:
            box = None
            eng = TurtleMDEngine(
                0.025, nsub, temp, 1.0, integ,
                {"class": "DoubleWell", "settings": {"a": 1.0, "b": 2.0,
                                                     "c": 0.0}},
                {"mass": [1.0], "name": ["Z"], "pos": [[-1.0]]},
                {"periodic": [False]})
            spec = rng.choice([
                {"class": "Position", "index": [0, 0], "periodic": False},
                {"class": "Velocity", "index": 0, "dim": "x"}])
            x0 = [[r6(rng.uniform(-1.2, 1.2)), 0.0, 0.0]]
            v0 = [[r6(rng.uniform(-1, 1)), 0.0, 0.0]]
            names = ["Z"]
        else:
            L = rng.choice([2.5, 3.0, 4.0])
            box = [L, L, L]
            eng = TurtleMDEngine(
                0.002, nsub, temp * 300, 0.0083144621,
                {"class": "LangevinInertia", "settings": {
                    "gamma": rng.choice([1.0, 10.0]),
                    "beta": 1.0 / (0.0083144621 * temp * 300)}},
                {"class": "LennardJones", "settings": {"parameters": {
                    "1": {"sigma": 0.3, "epsilon": 25.0, "rcut": 1.2}}}},
                {"mass": [1.008, 1.008], "name": ["H", "H"],
                 "pos": [[0.0, 0.0, 0.0], [0.4, 0.0, 0.0]]},
                {"periodic": [True, True, True], "low": [0, 0, 0],
                 "high": box})
            spec = rng.choice(ORDERS3D)
            a = [r6(rng.uniform(0.2, L - 0.2)) for _ in range(3)]
            d = rng.uniform(0.32, 0.6)
            x0 = [a, [r6(a[0] + d), r6(a[1] + rng.uniform(-.05, .05)),
                      a[2]]]
            v0 = [[r6(rng.uniform(-3, 3)) for _ in range(3)]
                  for _ in range(2)]
            names = ["H", "H"]
        eng.order_function = create_orderparameter({"orderparameter":
                                                    dict(spec)})
        eng.exe_dir = wdir
        eng.rgen = np.random.default_rng(rng.randrange(2 ** 31))
        f = os.path.join(wdir, f"s{i}.xyz")
        with open(f, "w") as fh:
            fh.write(sl.xyz_conf(names, x0, v0, box))
        start_rev, reverse = rng.random() < 0.3, rng.random() < 0.5
        from vf.oracles import trajref as tr
        o0 = tr.order_value(spec, x0, scaled(v0, sgn(start_rev)), box)
        w = rng.choice([0.02, 0.1, 0.5, 3.0])
        left, right = o0 - w * rng.uniform(0.3, 1), o0 + w * rng.uniform(.3, 1)
        if rng.random() < 0.08:
            left, right = o0 + 0.01, o0 + 1.0
        maxlen = rng.choice([3, 5, 10, 25, 60])
        case = {"engine": "turtlemd", "dim": 1 if one_d else 3, "x0": x0,
                "v0": v0, "box": box, "subcycles": nsub, "order": spec,
                "reverse": reverse, "start_vel_rev": start_rev,
                "maxlen": maxlen, "interfaces": [left, right],
                "integrator": integ, "sigx": (x0, v0)}
        run_inproc(out, "turtlemd", eng, spec, case, (f, rng.choice([0, None])),
                   start_rev, reverse, left, right, maxlen, tol_ind=1e-7)
        for fn in os.listdir(wdir):
            os.remove(os.path.join(wdir, fn))


def ase_cases(out, job, scratch, rng):
    import ase
    import numpy as np
    from ase import units
    from infretis.classes.engines.ase_engine import ASEEngine
    from infretis.classes.orderparameter import create_orderparameter
    from vf.oracles import trajref as tr
    wdir = os.path.join(scratch, "ase")
    os.makedirs(wdir, exist_ok=True)
    calc = os.path.join(repo_examples(), "ase", "H2", "H2-calc.py")
    for i in range(job["ase"]):
        np.random.seed(rng.randrange(2 ** 31))   # ASE Langevin uses it
        free = rng.random() < 0.4
        integ = "velocityverlet" if free or rng.random() < 0.6 else "langevin"
        nsub = rng.choice([1, 2, 5])
        dt = rng.choice([0.2, 0.5])
        eng = ASEEngine(dt, 300.0, nsub, ".", integ,
                        {"module": calc, "class": "LennardJonesCalc",
                         "sigma": 0.0 if free else 3.0, "epsilon": 0.2591,
                         "rc": 12.0, "smooth": False},
                        langevin_friction=0.01, langevin_fixcm=False,
                        exe_path=wdir)
        spec = rng.choice(ORDERS3D)
        eng.order_function = create_orderparameter({"orderparameter":
                                                    dict(spec)})
        eng.exe_dir = wdir
        # LJ cutoff 12: with a small cell, image pairs sit near the cutoff and
        # ASE's skin neighbour list makes the force depend on history (not
        # time reversible, not the engine's doing): retrace cases use L = 30
        L = 30.0 if integ == "velocityverlet" else rng.choice([9.0, 12.0, 30.])
        d = rng.uniform(3.2, 5.5)
        a = [rng.uniform(1, 5) for _ in range(3)]
        x0 = [a, [a[0] + d, a[1] + rng.uniform(-.3, .3), a[2]]]
        v0 = [[rng.uniform(-.05, .05) * units.Ang / units.fs
               for _ in range(3)] for _ in range(2)]
        atoms = ase.Atoms("H2", positions=x0, cell=[L, L, L], pbc=True)
        atoms.set_velocities(np.array(v0))
        f = os.path.join(wdir, f"s{i}.traj")
        atoms.write(f)
        start = tr.read_frame((f, 0))
        start_rev, reverse = rng.random() < 0.3, rng.random() < 0.5
        maxlen = rng.choice([4, 8, 15, 30])
        o0 = tr.order_value(spec, start["x"],
                            scaled(start["v"], sgn(start_rev)), start["box"])
        w = rng.choice([0.02, 0.2, 1.0]) * (0.1 if spec["class"] in (
            "Velocity", "Distancevel") else 1.0)
        left, right = o0 - w * rng.uniform(.3, 1), o0 + w * rng.uniform(.3, 1)
        truth = None
        if free:
            vr = scaled(start["v"], sgn(start_rev) * sgn(reverse))
            truth = [{"x": [[c + w_ * k * nsub * dt * units.fs
                             for c, w_ in zip(r, rv)]
                            for r, rv in zip(start["x"], vr)],
                      "v": vr, "box": None} for k in range(maxlen + 1)]
        case = {"engine": "ase", "integrator": integ, "free_flight": free,
                "x0": x0, "v0": v0, "cell": L, "subcycles": nsub,
                "timestep": dt, "order": spec, "reverse": reverse,
                "start_vel_rev": start_rev, "maxlen": maxlen,
                "interfaces": [left, right], "sigx": i}
        res = run_inproc(out, "ase", eng, spec, case, (f, 0), start_rev,
                         reverse, left, right, maxlen, truth)
        if integ == "velocityverlet" and res and not reverse and \
                not start_rev and len(res["frames"]) >= 3:
            k = rng.randint(1, len(res["frames"]) - 1)
            bcase = dict(case, reverse=True, label=f"backward from frame {k}")
            bwd = run_inproc(out, "ase", eng, spec, bcase,
                             res["path"].phasepoints[k].config, False, True,
                             -1e9, 1e9, k + 2)
            if bwd:
                judge_retrace(out, "ase", bcase, res, bwd, k, 1e-7)
        for fn in os.listdir(wdir):
            os.remove(os.path.join(wdir, fn))


