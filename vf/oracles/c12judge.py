"""C12 oracles on one returned path (see vf/checks/c12.py and DESIGN C12).

judge_path   frame 0 = start phase point; stored order of frame k = order
             recomputed from the configuration it references (through the
             engine's own extraction and through an independent reader and
             order function); referenced frame = frame k of the known
             dynamics; stop rule and success flag.
judge_retrace  backward propagation from frame k retraces the forward path.
Mechanism tags are computed from the relation that failed, never from seeds.
"""
import os


def sgn(flag):
    return -1.0 if flag else 1.0


def scaled(rows, s):
    return [[s * c for c in r] for r in rows]


def flat(a):
    return [c for r in a for c in (r if isinstance(r, (list, tuple)) else [r])]


def maxdiff(a, b):
    return max(abs(p - q) for p, q in zip(flat(a), flat(b)))


class Out:
    """Result accumulator of one job."""

    def __init__(self):
        self.res = {"n": 0, "sigs": [], "events": {}, "violations": [],
                    "samples": [], "reached": {}, "notes": [],
                    "inconclusive": []}
        self.per_mech = {}

    def ev(self, k, n=1):
        self.res["events"][k] = self.res["events"].get(k, 0) + n

    def reach(self, k, n=1):
        self.res["reached"][k] = self.res["reached"].get(k, 0) + n

    def viol(self, mech, what, case, **detail):
        self.ev("violation:" + mech)
        self.per_mech[mech] = self.per_mech.get(mech, 0) + 1
        if self.per_mech[mech] <= 2:
            w = {"mech": mech, "what": what, "case": case}
            w.update(detail)
            self.res["violations"].append(w)


# --------------------------------------------------------------------------
# the oracles on one returned path
# --------------------------------------------------------------------------
def own_extraction_order(engine, pp, tag):
    """Stored frame -> order through the engine's own machinery."""
    from infretis.classes.system import System
    s = System()
    s.config, s.vel_rev = pp.config, pp.vel_rev
    f = engine.dump_frame(s, deffnm=f"chk_{tag}")
    s2 = System()
    s2.config, s2.vel_rev = (f, 0), pp.vel_rev
    return float(engine.calculate_order(s2)[0])


def judge_path(out, kind, engine, spec, case, path, success, start, start_rev,
               reverse, left, right, maxlen, truth=None, expect=None,
               batches=None, tol_ind=1e-9, tol_truth=5e-5, short_ok=False,
               tol_first=1e-6, short_mech=None):
    """All per-path oracles. `start` = independent reading of the start
    configuration; truth[k] = {"x","v","box"} of frame k of the known
    dynamics in raw file coordinates (v = velocity the program integrates)."""
    from vf.oracles import trajref as tr
    pps = path.phasepoints
    n = len(pps)
    out.ev(f"{kind}:frames", n)
    if n == 0:
        if short_ok:
            out.ev(f"{kind}:empty-path-after-clean-early-exit")
        else:
            out.viol(f"{kind}:empty-path-returned", "propagate returned an "
                     "empty path without raising", case)
        return None
    stored = [float(p.order[0]) for p in pps]
    frames, own, bad = [], [], []
    for k, pp in enumerate(pps):
        try:
            fr = tr.read_frame(pp.config)
        except Exception as exc:
            out.viol(f"{kind}:frame-references-unreadable-configuration",
                     f"frame {k} references {os.path.basename(str(pp.config[0]))}"
                     f"[{pp.config[1]}], which an independent reader cannot "
                     f"find: {type(exc).__name__}: {exc}"[:400], case)
            return None
        frames.append(fr)
        own.append(tr.order_value(spec, fr["x"],
                                  scaled(fr["v"], sgn(pp.vel_rev)),
                                  fr["box"]))
    # (1) first frame = the start phase point -------------------------------
    out.reach("first_frame")
    o_start = tr.order_value(spec, start["x"],
                             scaled(start["v"], sgn(start_rev)), start["box"])
    v0_eff = scaled(start["v"], sgn(start_rev))
    f0_eff = scaled(frames[0]["v"], sgn(pps[0].vel_rev))
    first_bad = []
    if abs(stored[0] - o_start) > tol_first:
        first_bad.append(f"stored order {stored[0]!r} != order of the start "
                         f"point {o_start!r}")
    if maxdiff(frames[0]["raw_x"], start["raw_x"]) > tol_truth:
        first_bad.append("positions differ")
    if maxdiff(f0_eff, v0_eff) > tol_truth:
        first_bad.append(f"velocity direction differs: frame {f0_eff} start "
                         f"{v0_eff}")
    # (2) stored order = order of the referenced frame -----------------------
    eng_route = []
    for k, pp in enumerate(pps):
        out.reach("frame_order_independent")
        out.reach("frame_order_own_extraction")
        try:
            oe = own_extraction_order(engine, pp, k)
        except Exception as exc:  # extraction itself failing is a finding
            oe = None
            out.viol(f"{kind}:own-frame-extraction-raises",
                     f"dump_frame/calculate_order of frame {k} raised "
                     f"{type(exc).__name__}: {exc}", case)
        eng_route.append(oe)
        if abs(stored[k] - own[k]) > tol_ind or (
                oe is not None and abs(stored[k] - oe) > 1e-7):
            bad.append(k)
    sign_explains = mirror_explains = False
    if bad or first_bad:
        # does "velocity sign opposite to the frame's vel_rev" explain it?
        flipped = [tr.order_value(spec, fr["x"],
                                  scaled(fr["v"], -sgn(pp.vel_rev)),
                                  fr["box"]) for fr, pp in zip(frames, pps)]
        sign_explains = all(abs(stored[k] - flipped[k]) <= 1e-7 for k in bad) \
            and (not first_bad or bad[:1] == [0]) and bool(bad)
        if batches and kind == "lammps" and bad:
            mirror = {}
            s = 0
            for b in batches:
                for k in range(s, s + b):
                    mirror[k] = 2 * s + b - 1 - k
                s += b
            pred = {}
            for k in bad:
                m = mirror.get(k)
                if m is None or m >= len(frames) and truth is None:
                    break
                bx = (frames[m]["raw_box"] if m < len(frames)
                      else truth[m]["box"])
                xs = [[c - b[0] for c, b in zip(r, bx)]
                      for r in frames[k]["raw_x"]]
                pred[k] = tr.order_value(
                    spec, xs, scaled(frames[k]["v"], sgn(pps[k].vel_rev)),
                    [b[1] - b[0] for b in bx])
            mirror_explains = len(pred) == len(bad) and all(
                abs(stored[k] - pred[k]) <= 1e-7 for k in bad)
    if bad:
        if kind == "gromacs" and reverse and sign_explains:
            mech = "gromacs:backward-frames-velocity-sign-not-reversed"
        elif mirror_explains:
            mech = "lammps:frame-paired-with-box-of-mirror-frame-in-poll"
        else:
            mech = f"{kind}:stored-order-differs-from-referenced-frame"
        k = bad[0]
        out.viol(mech, f"{len(bad)}/{n} frames: e.g. frame {k} stored "
                 f"{stored[k]!r}, recomputed from {os.path.basename(pps[k].config[0])}"
                 f"[{pps[k].config[1]}] independently {own[k]!r}, through the "
                 f"engine's own extraction {eng_route[k]!r}", case,
                 bad_frames=bad[:12], batches=batches)
    if first_bad and not (bad[:1] == [0] and (mirror_explains or (
            kind == "gromacs" and reverse and sign_explains))):
        out.viol(f"{kind}:first-frame-differs-from-start-point",
                 "; ".join(first_bad), case)
    # (2c) the referenced frame is frame k of the dynamics that was run ------
    if truth is not None:
        for k, pp in enumerate(pps):
            out.reach("frame_is_kth_of_dynamics")
            t = truth[k]
            probs = []
            if pp.config[1] != k:
                probs.append(f"references index {pp.config[1]}")
            if maxdiff(frames[k]["raw_x"], t["x"]) > tol_truth:
                probs.append("positions are not those of step k")
            veff = scaled(frames[k]["v"], sgn(pp.vel_rev))
            if maxdiff(veff, scaled(t["v"], sgn(reverse))) > tol_truth:
                probs.append("velocity (in the frame's direction) is not "
                             "that of step k")
            if t.get("box") is not None and "raw_box" in frames[k] and \
                    maxdiff(frames[k]["raw_box"], t["box"]) > tol_truth:
                probs.append("box is not that of step k")
            if probs:
                out.viol(f"{kind}:frame-is-not-kth-configuration-of-the-run",
                         f"frame {k}: " + "; ".join(probs), case)
                break
    # (3) stop rule and success flag -----------------------------------------
    out.reach("stop_rule")
    inside = [left < o < right for o in stored]
    on_intf = any(min(abs(o - left), abs(o - right)) < 1e-9 for o in stored)
    if on_intf:
        # an order exactly on an interface (possible only for a frame whose
        # stored order is wrong for another reason): < vs <= is not fixed
        out.ev(f"{kind}:stored-order-exactly-on-an-interface(not judged)")
    elif not all(inside[:-1]):
        k = inside.index(False)
        out.viol(f"{kind}:stop-rule:continued-past-first-outside-frame",
                 f"frame {k} of {n} has order {stored[k]!r} outside "
                 f"({left}, {right})", case)
    elif inside[-1] and n < maxlen and not short_ok:
        out.viol(short_mech or
                 f"{kind}:stop-rule:stopped-inside-before-length-limit",
                 f"{n} frames, last order {stored[-1]!r} inside ({left}, "
                 f"{right}), maxlen {maxlen}", case)
    if n > maxlen:
        out.viol(f"{kind}:stop-rule:longer-than-maxlen", f"{n} > {maxlen}",
                 case)
    if on_intf:
        return {"frames": frames, "stored": stored}
    if not inside[-1] and n == maxlen:
        out.ev(f"{kind}:crossing-on-last-allowed-frame(not judged)")
    elif bool(success) != (not inside[-1]):
        out.viol(f"{kind}:stop-rule:success-flag-wrong",
                 f"success={success} but the last of {n} frames (maxlen "
                 f"{maxlen}) has order {stored[-1]!r}, interfaces ({left}, "
                 f"{right})", case)
    if expect is not None and not bad and not (inside[-1] and n < maxlen) \
            and (n != expect["len"] or bool(success) != expect["success"]):
        out.viol(f"{kind}:stop-rule:differs-from-known-dynamics",
                 f"returned {n} frames success={success}; the known "
                 f"trajectory leaves ({left}, {right}) at frame "
                 f"{expect['len'] - 1} (expected success="
                 f"{expect['success']})", case)
    return {"frames": frames, "stored": stored}


def judge_retrace(out, kind, case, fwd, bwd, k, tol):
    """bwd started from frame k of fwd (both = judge_path results)."""
    out.reach("retrace")
    m = min(k, len(bwd["frames"]) - 1)
    for j in range(m + 1):
        fb, ff = bwd["frames"][j], fwd["frames"][k - j]
        if maxdiff(fb["raw_x"], ff["raw_x"]) > tol:
            out.viol(f"{kind}:backward-does-not-retrace:positions",
                     f"backward frame {j} != forward frame {k - j}: "
                     f"{fb['raw_x']} vs {ff['raw_x']}", case)
            return
        if maxdiff(fb["v"], scaled(ff["v"], -1.0)) > tol:
            out.viol(f"{kind}:backward-does-not-retrace:velocities",
                     f"backward frame {j} velocities {fb['v']} are not the "
                     f"reversed forward ones {ff['v']}", case)
            return
    out.ev(f"{kind}:retraced_frames", m + 1)
    bad = [j for j in range(m + 1)
           if abs(bwd["stored"][j] - fwd["stored"][k - j]) > max(tol, 1e-7)]
    if bad:
        neg = all(abs(bwd["stored"][j] + fwd["stored"][k - j]) <= max(
            tol, 1e-7) for j in bad)
        mech = ("gromacs:backward-frames-velocity-sign-not-reversed"
                if kind == "gromacs" and neg else
                f"{kind}:backward-does-not-retrace:orders")
        j = bad[0]
        out.viol(mech, f"stored order of backward frame {j} "
                 f"{bwd['stored'][j]!r} != forward frame {k - j} "
                 f"{fwd['stored'][k - j]!r} ({len(bad)} frames)", case)


