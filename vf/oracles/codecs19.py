"""Independent file-format writers / parsers used by C19.

Everything here is written from the format definitions (GROMOS96 fixed
columns "%5d %-5s %-5s%7d%15.9f%15.9f%15.9f", xyz with a comment line,
LAMMPS custom dump "ITEM:" blocks, GROMACS TRR frame layout) and never calls
or copies the codecs of /repo.  Parsers deliberately use another strategy than
the code under test (g96 numbers are cut from the right end of the line, dump
files are split at their ITEM markers instead of by line arithmetic, ...).
"""
import struct

import numpy as np

# --------------------------------------------------------------------- g96


def g96_prefix(resnr, resname, atname, atnr):
    """The 24 identity columns of a POSITION / VELOCITY line."""
    return f"{resnr:5d} {resname:<5s} {atname:<5s}{atnr:7d}"


def g96_text(title, prefixes, pos, vel, box, red=False):
    """A .g96 configuration; vel may be None (no VELOCITY block)."""
    out = ["TITLE"] + list(title) + ["END"]
    for key, arr in (("POSITION", pos), ("VELOCITY", vel)):
        if arr is None:
            continue
        out.append(key + ("RED" if red else ""))
        for pre, row in zip(prefixes, arr):
            num = "".join("%15.9f" % float(x) for x in row)
            out.append(num if red else pre + num)
        out.append("END")
    out.append("BOX")
    out.append("".join("%15.9f" % float(x) for x in box))
    out.append("END")
    return "\n".join(out) + "\n"


def g96_parse(path):
    """-> dict(title, prefix, pos, vel (None if absent), vprefix, box)."""
    blocks, cur = {}, None
    with open(path, encoding="utf-8") as fh:
        for raw in fh:
            line = raw.rstrip("\n")
            word = line.strip()
            if cur is None:
                if word:
                    cur = word
                    blocks.setdefault(cur, [])
            elif word == "END":
                cur = None
            else:
                blocks[cur].append(line)

    def cut(lines):
        pre, val = [], []
        for line in lines:
            line = line.rstrip()
            tail = line[-45:]
            pre.append(line[:-45])
            val.append([float(tail[i:i + 15]) for i in (0, 15, 30)])
        return pre, np.array(val, dtype=float).reshape(-1, 3)

    pre, pos = cut(blocks.get("POSITION", []))
    vpre, vel = cut(blocks.get("VELOCITY", []))
    box = None
    if blocks.get("BOX"):
        box = np.array([float(x) for x in " ".join(blocks["BOX"]).split()])
    return {"title": [t.rstrip() for t in blocks.get("TITLE", [])],
            "prefix": pre, "pos": pos, "vprefix": vpre,
            "vel": vel if blocks.get("VELOCITY") else None, "box": box,
            "has_velocity_block": "VELOCITY" in blocks}


# --------------------------------------------------------------------- xyz


def xyz_text(frames, style=0):
    """frames: list of dict(names, pos, vel|None, box|None, step|None)."""
    sep = [" ", "\t", "   "][style % 3]
    out = []
    for fr in frames:
        out.append(f"{len(fr['names'])}")
        head = ["#"]
        if fr.get("step") is not None:
            head.append(f"Step: {fr['step']}")
        if fr.get("box") is not None:
            tag = ["Box:", "box:", "BOX:"][style % 3]
            head.append(tag + " " + " ".join(repr(float(b))
                                             for b in fr["box"]))
        out.append(" ".join(head))
        for i, name in enumerate(fr["names"]):
            cols = [name] + [repr(float(x)) for x in fr["pos"][i]]
            if fr.get("vel") is not None:
                cols += [repr(float(x)) for x in fr["vel"][i]]
            out.append(("  " if style % 2 else "") + sep.join(cols))
    return "\n".join(out) + "\n"


def xyz_parse(path):
    """-> list of dict(names, pos, vel, box, header)."""
    with open(path, encoding="utf-8") as fh:
        lines = fh.read().split("\n")
    if lines and lines[-1] == "":
        lines.pop()
    frames, i = [], 0
    while i < len(lines):
        n = int(lines[i].split()[0])
        header = lines[i + 1]
        rows = [ln.split() for ln in lines[i + 2:i + 2 + n]]
        if len(rows) != n:
            raise ValueError("short xyz frame")
        names = [r[0] for r in rows]
        num = np.array([[float(x) for x in r[1:]] for r in rows])
        num = num.reshape(n, -1)
        box = None
        low = header.lower()
        if "box:" in low:
            box = np.array([float(x) for x in
                            low[low.index("box:") + 4:].split()])
        frames.append({"names": names, "pos": num[:, 0:3],
                       "vel": num[:, 3:6] if num.shape[1] >= 6 else None,
                       "box": box, "header": header})
        i += 2 + n
    return frames


# --------------------------------------------------------------- lammpstrj


def lammpstrj_text(frames, trailing_id=True, style=0):
    """frames: list of dict(ids, types, pos, vel, box (3x2 or 3x3), step)."""
    fmt = [repr, lambda x: "%.17g" % x, lambda x: "%.16e" % x][style % 3]
    out = []
    for fr in frames:
        out += ["ITEM: TIMESTEP", str(int(fr.get("step", 0))),
                "ITEM: NUMBER OF ATOMS", str(len(fr["ids"]))]
        tri = np.asarray(fr["box"]).shape[1] == 3
        out.append("ITEM: BOX BOUNDS " + ("xy xz yz " if tri else "")
                   + "pp pp pp")
        for row in fr["box"]:
            out.append(" ".join(fmt(float(x)) for x in row))
        out.append("ITEM: ATOMS id type x y z vx vy vz"
                   + (" id" if trailing_id else ""))
        for i, aid in enumerate(fr["ids"]):
            cols = [str(int(aid)), str(int(fr["types"][i]))]
            cols += [fmt(float(x)) for x in fr["pos"][i]]
            cols += [fmt(float(x)) for x in fr["vel"][i]]
            if trailing_id:
                cols.append(str(int(aid)))
            out.append(" ".join(cols))
    return "\n".join(out) + "\n"


def lammpstrj_parse(path):
    """-> list of dict(ids, types, pos, vel, box) in file order."""
    with open(path, encoding="utf-8") as fh:
        text = fh.read()
    frames = []
    for chunk in text.split("ITEM: TIMESTEP")[1:]:
        parts = chunk.split("ITEM:")
        natoms = int(parts[1].split("\n")[1])
        boxl = [ln for ln in parts[2].split("\n")[1:] if ln.strip()]
        box = np.array([[float(x) for x in ln.split()] for ln in boxl])
        rows = [ln.split() for ln in parts[3].split("\n")[1:] if ln.strip()]
        if len(rows) != natoms:
            raise ValueError("atom count mismatch in dump frame")
        tab = np.array([[float(x) for x in r] for r in rows])
        tab = tab.reshape(natoms, -1)
        frames.append({"ids": tab[:, 0], "types": tab[:, 1],
                       "pos": tab[:, 2:5], "vel": tab[:, 5:8], "box": box})
    return frames


# --------------------------------------------------------------------- TRR


def trr_bytes(frames, endian, double):
    """GROMACS .trr frames.  Each frame: dict(natoms, step, time, lam,
    box|None, vir|None, pres|None, x|None, v|None, f|None).

    Layout per frame: int magic 1993; ints 13, 12; 12 bytes "GMX_trn_file";
    13 ints (ir, e, box, vir, pres, top, sym, x, v, f sizes in bytes, natoms,
    step, nre); time and lambda as reals; then the blocks in that order.
    """
    real = "d" if double else "f"
    size = 8 if double else 4
    out = b""
    for fr in frames:
        n = int(fr["natoms"])
        mats = [fr.get(k) for k in ("box", "vir", "pres")]
        vecs = [fr.get(k) for k in ("x", "v", "f")]
        sizes = [0, 0] + [9 * size if m is not None else 0 for m in mats]
        sizes += [0, 0] + [3 * n * size if v is not None else 0 for v in vecs]
        out += struct.pack(endian + "i", 1993)
        out += struct.pack(endian + "2i", 13, 12) + b"GMX_trn_file"
        out += struct.pack(endian + "13i", *sizes, n, int(fr["step"]), 0)
        out += struct.pack(endian + "2" + real, fr["time"], fr["lam"])
        for arr in mats + vecs:
            if arr is not None:
                flat = [float(x) for x in np.asarray(arr).reshape(-1)]
                out += struct.pack(endian + f"{len(flat)}" + real, *flat)
    return out


def byteswap32(val):
    """Byte-reversed value of a 32-bit pattern (unsigned result)."""
    return struct.unpack("<I", struct.pack(">I", val & 0xFFFFFFFF))[0]
