"""Seeded random input generators for C19 (no infretis import).

Coordinates, TRR frame sets, and the (template, request) pairs for the mdp,
CP2K and LAMMPS editors.  Every random choice comes from the numpy Generator
that is passed in.
"""
import numpy as np


def _np():
    return np


def natoms(rng, lo=1):
    r = rng.random()
    if r < 0.35:
        return int(rng.integers(lo, lo + 3))
    if r < 0.85:
        return int(rng.integers(lo, 25))
    return int(rng.integers(25, 201))


def dec9(rng, shape, cls):
    """Exact 9-decimal numbers (as the nearest doubles), distinct, non-zero."""
    lo, hi = {"small": (-10, 10), "mid": (-1000, 1000),
              "edge": (-9999, 99999), "vedge": (-9999, 9999)}[cls]
    k = rng.integers(lo * 10 ** 9 + 1, hi * 10 ** 9, size=shape)
    k[k == 0] = 7
    return k / 1e9


def reals(rng, shape, cls):
    np = _np()
    lim = {"small": 10.0, "mid": 1000.0, "edge": 9999.0}[cls]
    x = rng.uniform(-lim, lim, size=shape)
    if cls == "small":
        x *= 10.0 ** rng.integers(-4, 1, size=shape)
    return np.where(x == 0, 0.5, x)


WORDS = ["SOL", "H1", "OW", "HW1", "CA", "LIG", "MOL", "NA", "CL", "C12",
         "O", "H", "N", "Ar", "Zn", "X", "Cu2", "HYDRO"]



def trr_frames(rng, n, nfr, always=("box", "x"), lim=9000.0):
    np = _np()

    def f32(shape, scale):
        x = rng.uniform(-scale, scale, size=shape).astype(np.float32)
        x[x == 0] = np.float32(0.25)
        return x.astype(float)
    out = []
    for j in range(nfr):
        fr = {"natoms": n, "step": int(rng.integers(0, 10 ** 6)),
              "time": float(np.float32(rng.uniform(0, 500))),
              "lam": float(np.float32(rng.random()))}
        for key, shape, scale in (("box", (3, 3), 30.0), ("vir", (3, 3), 1e3),
                                  ("pres", (3, 3), 1e3), ("x", (n, 3), lim),
                                  ("v", (n, 3), 5.0), ("f", (n, 3), 2e3)):
            p = 1.0 if key in always else (0.25 if key in ("vir", "pres")
                                           else 0.6)
            fr[key] = f32(shape, scale) if rng.random() < p else None
        if fr["box"] is not None:
            fr["box"] = np.abs(fr["box"])
        out.append(fr)
    return out



MDP_KEYS = ["integrator", "nsteps", "dt", "nstxout", "nstvout", "nstfout",
            "nstlog", "nstcalcenergy", "nstenergy", "gen_vel", "ref-t",
            "tc-grps", "tau_t", "tcoupl", "pbc", "rvdw", "rcoulomb", "define",
            "cutoff-scheme", "continuation", "gen_seed", "nstcomm", "rlist",
            "coulombtype", "vdwtype", "constraints", "comm-mode"]
MDP_VALUES = ["md-vv", "no", "yes", "10", "0", "0.002", "300 300", "xyz",
              "System", "Verlet", "-1", "1.2", "-DPOSRES", "h-bonds",
              "Protein Non-Protein", "2.5e-4"]


def mdp_case(rng):
    """-> dict(text, lines, keys, present, absent, settings, no_newline)."""
    keys = [str(k) for k in rng.choice(MDP_KEYS, size=int(rng.integers(2, 12)),
                                       replace=False)]
    lines = []
    for k in keys:
        reps = 2 if rng.random() < 0.06 else 1
        for _ in range(reps):
            ws1 = str(rng.choice(["", " ", "   ", "\t", "          "]))
            ws2 = str(rng.choice(["", " ", "  ", "\t"]))
            val = str(rng.choice(MDP_VALUES))
            if k == "define" and rng.random() < 0.5:
                val = "-DPOSRES=1 -DFLEX"      # value holding the delimiter
            tail = " ; note" if rng.random() < 0.15 else ""
            lines.append((str(rng.choice(["", "", " "])) + k + ws1 + "=" + ws2
                          + val + tail))
        r = rng.random()
        if r < 0.15:
            lines.append("")
        elif r < 0.3:
            lines.append("; " + str(rng.choice(
                ["a comment", f"{rng.choice(MDP_KEYS)} = 5", "x = y"])))
    no_newline = bool(rng.random() < 0.12 and lines[-1] != "")
    text = "\n".join(lines) + ("" if no_newline else "\n")
    present = [k for k in keys if rng.random() < 0.4]
    absent = [str(k) for k in rng.choice(MDP_KEYS, size=int(rng.integers(0, 4)),
                                         replace=False) if k not in keys]
    if not present and not absent:
        present = [keys[0]]
    settings = {}
    for k in present + absent:
        v = [int(rng.integers(0, 5000)), float(rng.integers(1, 999)) / 1000,
             "no", "300 300", "md-vv"][int(rng.integers(0, 5))]
        settings[k] = v
    return {"text": text, "lines": lines, "keys": keys, "present": present,
            "absent": absent, "settings": settings, "no_newline": no_newline}


CP_TITLES = ["GLOBAL", "MOTION", "MD", "PRINT", "RESTART", "EACH", "SUBSYS",
             "FORCE_EVAL", "KIND", "CELL", "TOPOLOGY", "DFT", "SCF", "MM",
             "FORCEFIELD", "VELOCITY", "COORD", "LANGEVIN", "TRAJECTORY",
             "VELOCITIES", "XC", "QS", "MGRID", "POISSON", "EWALD", "THERMO"]
CP_KEYS = ["STEPS", "TIMESTEP", "TEMPERATURE", "ENSEMBLE", "PROJECT", "MD",
           "RUN_TYPE", "BACKUP_COPIES", "FILENAME", "ABC", "MASS", "GAMMA",
           "BASIS_SET", "CUTOFF", "EPS_SCF", "COORD_FILE_NAME", "METHOD"]
CP_VALS = ["100", "0.5", "300", "NVE", "MD", "LOW", "RESTART", "30.0 30.0 30.0",
           "DZVP-GTH", "./conf.xyz", "1.0E-6", "[angstrom] 3.0", "XYZ"]
CP_PARAMS = ["H", "O", "C", "OFF", "ON", "MEDIUM", "T"]


def _cp_tree(rng, depth, titles):
    """Random forest as nested dicts; titles unique among siblings except
    for deliberate same-titled groups (2 = addressable pair, 3 = never)."""
    nodes = []
    count = int(rng.integers(1, 4)) if depth else int(rng.integers(1, 5))
    for title in rng.choice(titles, size=count, replace=False):
        group = 1
        if depth and rng.random() < 0.15:
            group = 2 if rng.random() < 0.7 else 3
        pars = [str(p) for p in rng.choice(CP_PARAMS, size=group,
                                           replace=False)]
        for g in range(group):
            node = {"title": str(title), "group": group, "kids": [],
                    "params": [pars[g]] if group > 1 else (
                        [str(rng.choice(CP_PARAMS))] if rng.random() < 0.2
                        else []), "table": rng.random() < 0.1}
            if node["table"]:
                node["lines"] = [f"{rng.choice(['H', 'O'])} {j}.5 0.0 1.0"
                                 for j in range(int(rng.integers(1, 4)))]
            else:
                ks = rng.choice(CP_KEYS, size=int(rng.integers(0, 5)),
                                replace=False)
                node["lines"] = [f"{k} {rng.choice(CP_VALS)}" if
                                 rng.random() < 0.9 else str(k) for k in ks]
            if depth < 3 and rng.random() < 0.65:
                node["kids"] = _cp_tree(rng, depth + 1, titles)
            nodes.append(node)
    return nodes


def _cp_render(rng, nodes, level=0):
    out = []
    for nd in nodes:
        ind = " " * int(rng.integers(0, 3) + 2 * level)
        t = nd["title"] if rng.random() < 0.8 else nd["title"].lower()
        out.append(f"{ind}&{t}" + "".join(" " + p for p in nd["params"]))
        for ln in nd["lines"]:
            out.append(ind + "  " + ln.replace(" ", str(rng.choice(
                [" ", "  ", "\t"])), 1))
            if rng.random() < 0.05:
                out.append(ind + "  # a comment line")
        out += _cp_render(rng, nd["kids"], level + 1)
        out.append(f"{ind}&END" + (f" {t}" if rng.random() < 0.7 else ""))
        if rng.random() < 0.2:
            out.append("")
    return out


def _cp_addressable(nodes, path="", ok=True):
    """[(target string, node dict, inside_pair)] of addressable sections."""
    out = []
    for nd in nodes:
        here = path + nd["title"]
        if not ok or nd["group"] == 3:
            out += _cp_addressable(nd["kids"], here + "->", False)
        elif nd["group"] == 2:
            out.append((here + "->" + " ".join(nd["params"]), nd, True))
            out += _cp_addressable(nd["kids"], here + "->", False)
        else:
            out.append((here, nd, False))
            out += _cp_addressable(nd["kids"], here + "->", True)
    return out


def cp2k_case(rng):
    """-> dict(text, addr, update, remove)."""
    forest = _cp_tree(rng, 0, CP_TITLES)
    prefix_pair = None
    if rng.random() < 0.12:
        # two root sections whose names are string prefixes of one another
        # (RESTART / RESTART_HISTORY), both removed, the shorter one first
        a, b = [("RESTART", "RESTART_HISTORY"), ("VELOCITY", "VELOCITIES"),
                ("KIND", "KINDS")][int(rng.integers(0, 3))]
        roots = [nd["title"] for nd in forest]
        for t in (a, b):
            if t not in roots:
                forest.append({"title": t, "group": 1, "kids": [],
                               "params": [], "table": False,
                               "lines": [f"{rng.choice(CP_KEYS)} "
                                         f"{rng.choice(CP_VALS)}"]})
        if all(nd["group"] == 1 for nd in forest if nd["title"] in (a, b)):
            prefix_pair = [a, b]
    text = "\n".join(["# generated template"] * (rng.random() < 0.3)
                     + _cp_render(rng, forest)) + "\n"
    addr = _cp_addressable(forest)
    update, used, pair_updated = {}, [], False
    if prefix_pair:
        used += prefix_pair
    for _ in range(int(rng.integers(1, 5))):
        tgt, nd, pair = addr[int(rng.integers(0, len(addr)))]
        new = rng.random() < 0.3 and not pair
        if new:
            fresh = [t for t in CP_TITLES + ["NEWSEC", "EXTRA"]
                     if t not in [k["title"] for k in nd["kids"]]]
            tgt = tgt + "->" + str(rng.choice(fresh))
            if rng.random() < 0.25:
                tgt += "->" + str(rng.choice(["INNER", "EACH"]))
            nd = {"lines": [], "table": False}
        elif rng.random() < 0.08:
            tgt = str(rng.choice(["NEWROOT", "EXT_RESTART2"]))   # new root
            new, nd = True, {"lines": [], "table": False}
        if any(tgt == u or tgt.startswith(u + "->") or u.startswith(tgt + "->")
               for u in used):
            continue
        used.append(tgt)
        pair_updated |= pair
        val = {}
        if rng.random() < 0.7:
            have = [] if nd["table"] else [ln.split()[0] for ln in nd["lines"]]
            ks = [k for k in have if rng.random() < 0.5]
            ks += [str(k) for k in rng.choice(
                CP_KEYS, size=int(rng.integers(0, 3)), replace=False)
                if k not in ks and (nd["table"] or k not in have or
                                    rng.random() < 0.5)]
            data = {}
            for k in ks:
                v = [int(rng.integers(1, 500)), 0.25, "xyz", "./p/conf.xyz",
                     "1 2 3", 0, 0.0][int(rng.integers(0, 7))]
                data[k] = None if rng.random() < 0.04 else v
            val["data"] = data
        else:
            val["data"] = [f"{rng.choice(CP_KEYS)} {rng.choice(CP_VALS)}"
                           for _ in range(int(rng.integers(0, 4)))]
            val["replace"] = True
        if rng.random() < 0.2 and not pair:
            val["settings"] = [str(rng.choice(CP_PARAMS))]
        update[tgt] = val
    remove = list(prefix_pair or [])
    for _ in range(int(rng.integers(0, 3))):
        tgt, _, in_pair = addr[int(rng.integers(0, len(addr)))]
        if in_pair and pair_updated:
            continue    # removing a sibling would change the other's address
        if rng.random() < 0.3:
            tgt = str(rng.choice(["EXT_RESTART", "MOTION->NOPE", "A->B->C"]))
        if not any(tgt == u or tgt.startswith(u + "->") or
                   u.startswith(tgt + "->") for u in used):
            used.append(tgt)
            remove.append(tgt)
    return {"text": text, "addr": addr, "update": update, "remove": remove}


LMP_VARS = ["timestep", "nsteps", "subcycles", "initconf", "name",
            "lammpsdata", "temperature", "seed"]
LMP_BODY = ["units real", "atom_style full", "dimension 3", "boundary p p p",
            "pair_style lj/cut/coul/cut 12.0 12.0", "read_data ${lammpsdata}",
            "read_dump ${initconf} 0 x y z vx vy vz box yes", "fix 1 all nve",
            "fix 2 all langevin ${temperature} ${temperature} 500.0 ${seed}",
            "thermo ${subcycles}", "timestep ${timestep}", "run ${nsteps}",
            "dump 1 all custom ${subcycles} ${name}.lammpstrj id type x y z",
            "# infretis_variables are replaced", "variable infretis_x equal 2",
            "print my_infretis_name_is_kept", ""]


def lammps_case(rng):
    """-> dict(text, lines, settings, mode, pick)."""
    from pathlib import Path
    mode = str(rng.choice(
        ["once", "missing", "twice_one_line", "two_lines", "substring"],
        p=[.5, .1, .1, .2, .1]))
    settings = {
        "infretis_timestep": float(rng.integers(1, 40)) / 10,
        "infretis_nsteps": int(rng.integers(1, 10 ** 5)),
        "infretis_subcycles": int(rng.integers(1, 50)),
        "infretis_initconf": f"/scratch/w{rng.integers(0, 9)}/conf.lammpstrj",
        "infretis_name": str(rng.choice(["trajB", "trajF", "genvel"])),
        "infretis_lammpsdata": Path("/in/lammps.data"),
        "infretis_temperature": float(rng.integers(100, 400)),
        "infretis_seed": int(rng.integers(0, 10 ** 7))}
    lines = []
    for v in rng.permutation(LMP_VARS):
        sep = str(rng.choice([" ", "\t", " \t", "    "]))
        lines.append(f"variable{sep}{v} index infretis_{v}"
                     + (" # set by infretis" if rng.random() < 0.2 else ""))
    lines += [str(x) for x in rng.choice(LMP_BODY,
                                         size=int(rng.integers(3, 12)))]
    pick = "infretis_" + str(rng.choice(LMP_VARS))
    where = int(rng.integers(0, len(lines) + 1))
    if mode == "missing":
        lines = [ln for ln in lines if pick not in ln.split()]
    elif mode == "twice_one_line":
        lines = [ln + f" # {pick}" if pick in ln.split() else ln
                 for ln in lines]
    elif mode == "two_lines":
        lines.insert(where, str(rng.choice(
            [f"# {pick} is replaced by infretis",
             f"variable copy index {pick}"])))
    elif mode == "substring":
        lines.insert(where, str(rng.choice(
            [f"print {pick}_old", f"variable tmp string ${{{pick}}}"])))
    text = "\n".join(lines) + "\n"
    return {"text": text, "lines": lines, "settings": settings, "mode": mode,
            "pick": pick}
