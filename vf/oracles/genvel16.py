"""Independent oracles for C16 (velocity regeneration).

* CODATA-2018 constants typed in here (never imported from /repo or from
  ase.units) and the Maxwell-Boltzmann variance k_B*T/m expressed in each
  engine's velocity unit, derived through SI.
* Minimal writers / parsers for the frame formats (GROMOS96, xyz with a
  "Box:" comment, LAMMPS custom dump, LAMMPS data file, GROMACS .trr), written
  from the format definitions; the parsers use another strategy than the code
  under test (numbers cut from the right end, dump files split at "ITEM:").
"""
import struct

import numpy as np

# ---- CODATA 2018 (exact SI where defined) --------------------------------
K_B = 1.380649e-23            # J/K
N_A = 6.02214076e23           # 1/mol
E_CH = 1.602176634e-19        # C  (J per eV)
AMU = 1.66053906660e-27       # kg
M_E = 9.1093837015e-31        # kg
HARTREE = 4.3597447222071e-18  # J
BOHR = 5.29177210903e-11      # m
HBAR = 1.054571817e-34        # J s
CAL = 4.184                   # J (thermochemical calorie)

# velocity unit of each engine in m/s
VEL_UNIT = {
    "gromacs": 1e-9 / 1e-12,                 # nm/ps
    "lammps": 1e-10 / 1e-15,                 # Angstrom/fs (units real)
    "cp2k": BOHR / (HBAR / HARTREE),         # bohr / atomic unit of time
    "ase": (E_CH / AMU) ** 0.5,              # Angstrom / (Ang*sqrt(amu/eV))
}
# k_B in the energy unit each engine documents (per K)
KB_ENGINE = {
    "gromacs": K_B * N_A / 1e3,              # kJ/mol
    "lammps": K_B * N_A / (1e3 * CAL),       # kcal/mol
    "cp2k": K_B / HARTREE,                   # hartree
    "ase": K_B / E_CH,                       # eV
}
# mass unit used in the engine's kinetic energy, in amu
MASS_UNIT_AMU = {"gromacs": 1.0, "lammps": 1.0, "ase": 1.0,
                 "cp2k": M_E / AMU, "turtlemd": 1.0}

# IUPAC abridged standard atomic weights (typed in; elements whose interval
# midpoint differs from the abridged value by > 0.05 % are left out)
ELEMENTS = {"H": 1.008, "He": 4.0026, "C": 12.011, "N": 14.007, "O": 15.999,
            "F": 18.998, "Ne": 20.180, "Na": 22.990, "Si": 28.085,
            "P": 30.974, "Cl": 35.45, "Ar": 39.948, "K": 39.098,
            "Fe": 55.845, "Cu": 63.546, "Br": 79.904, "Kr": 83.798,
            "Ag": 107.87, "I": 126.90, "Xe": 131.29, "Au": 196.97,
            "Pb": 207.2}
ATOMIC_NUMBER = {"H": 1, "He": 2, "C": 6, "N": 7, "O": 8, "F": 9, "Ne": 10,
                 "Na": 11, "Si": 14, "P": 15, "Cl": 17, "Ar": 18, "K": 19,
                 "Fe": 26, "Cu": 29, "Br": 35, "Kr": 36, "Ag": 47, "I": 53,
                 "Xe": 54, "Au": 79, "Pb": 82}


def mb_variance(engine, temperature, mass_amu, boltzmann=None):
    """Variance of one Cartesian velocity component, engine velocity units.

    mass_amu: masses in g/mol (reduced mass units for turtlemd)."""
    mass_amu = np.asarray(mass_amu, dtype=float)
    if engine == "turtlemd":
        return boltzmann * temperature / mass_amu
    si = K_B * temperature / (mass_amu * AMU)          # m^2/s^2
    return si / VEL_UNIT[engine] ** 2


# ---- writers --------------------------------------------------------------


def g96_text(names, pos, vel, box, title="C16 generated"):
    """names: list of (resnr, resname, atomname); vel may be None."""
    out = ["TITLE", title, "END"]
    for key, arr in (("POSITION", pos), ("VELOCITY", vel)):
        if arr is None:
            continue
        out.append(key)
        for i, ((rnr, rnm, anm), row) in enumerate(zip(names, arr)):
            out.append("%5d %-5s %-5s%7d" % (rnr, rnm, anm, i + 1)
                       + "".join("%15.9f" % x for x in row))
        out.append("END")
    out += ["BOX", "".join("%15.9f" % x for x in box), "END"]
    return "\n".join(out) + "\n"


def xyz_text(frames):
    """frames: list of dict(names, pos, vel|None, box|None)."""
    out = []
    for k, fr in enumerate(frames):
        out.append(str(len(fr["names"])))
        head = f"# Step: {k}"
        if fr.get("box") is not None:
            head += " Box: " + " ".join("%.4f" % b for b in fr["box"])
        out.append(head)
        for i, name in enumerate(fr["names"]):
            cols = [name] + ["%.9f" % x for x in fr["pos"][i]]
            if fr.get("vel") is not None:
                cols += ["%.9f" % x for x in fr["vel"][i]]
            out.append("  ".join(cols))
    return "\n".join(out) + "\n"


def lammpstrj_text(frames):
    """frames: list of dict(ids, types, pos, vel, box (3x2)); rows are
    written in the order given by ``order`` (dump files are unsorted)."""
    out = []
    for k, fr in enumerate(frames):
        out += ["ITEM: TIMESTEP", str(k), "ITEM: NUMBER OF ATOMS",
                str(len(fr["ids"])), "ITEM: BOX BOUNDS pp pp pp"]
        out += ["%.16e %.16e" % tuple(row) for row in fr["box"]]
        out.append("ITEM: ATOMS id type x y z vx vy vz id")
        for i in fr.get("order", range(len(fr["ids"]))):
            out.append(" ".join(
                [str(fr["ids"][i]), str(fr["types"][i])]
                + [repr(float(x)) for x in fr["pos"][i]]
                + [repr(float(x)) for x in fr["vel"][i]]
                + [str(fr["ids"][i])]))
    return "\n".join(out) + "\n"


def lammps_data_text(type_masses, atom_types, pos, box_hi):
    """LAMMPS data file, atom_style full (id mol type q x y z)."""
    out = ["C16 generated", "", f"{len(atom_types)} atoms",
           f"{len(type_masses)} atom types",
           f"0 {box_hi[0]} xlo xhi", f"0 {box_hi[1]} ylo yhi",
           f"0 {box_hi[2]} zlo zhi", "", "Masses", ""]
    out += [f"{t + 1} {m!r}" for t, m in enumerate(type_masses)]
    out += ["", "Atoms", ""]
    out += [f"{i + 1} 1 {t} 0.0 " + " ".join(repr(float(x)) for x in pos[i])
            for i, t in enumerate(atom_types)]
    return "\n".join(out) + "\n"


def trr_bytes(frames, double=False):
    """GROMACS .trr: per frame magic 1993, (13, 12), "GMX_trn_file", 13 ints
    (ir e box vir pres top sym x v f sizes, natoms, step, nre), time, lambda,
    then box(3x3), x, v.  frames: dict(x, v|None, box(3))."""
    real, size = ("d", 8) if double else ("f", 4)
    out = b""
    for k, fr in enumerate(frames):
        n = len(fr["x"])
        vec = 3 * n * size
        sizes = [0, 0, 9 * size, 0, 0, 0, 0, vec,
                 vec if fr.get("v") is not None else 0, 0]
        out += struct.pack(">3i", 1993, 13, 12) + b"GMX_trn_file"
        out += struct.pack(">13i", *sizes, n, k, 0)
        out += struct.pack(">2" + real, 0.002 * k, 0.0)
        box = np.diag(np.asarray(fr["box"], dtype=float))
        for arr in (box, fr["x"], fr.get("v")):
            if arr is not None:
                flat = np.asarray(arr, dtype=float).reshape(-1)
                out += struct.pack(f">{flat.size}{real}", *flat)
    return out


# ---- parsers --------------------------------------------------------------


def g96_parse(path):
    """-> dict(ids (24 identity columns), pos, vel|None, box)."""
    blocks, cur = {}, None
    with open(path, encoding="utf-8") as fh:
        for raw in fh:
            line = raw.rstrip("\n")
            if cur is None:
                if line.strip():
                    cur = line.strip()
                    blocks[cur] = []
            elif line.strip() == "END":
                cur = None
            else:
                blocks[cur].append(line.rstrip())

    def cut(lines):
        ids = [ln[:-45] for ln in lines]
        val = [[float(ln[-45:][i:i + 15]) for i in (0, 15, 30)]
               for ln in lines]
        return ids, np.array(val, dtype=float).reshape(-1, 3)

    ids, pos = cut(blocks.get("POSITION", []))
    vids, vel = cut(blocks.get("VELOCITY", []))
    box = (np.array(" ".join(blocks["BOX"]).split(), dtype=float)
           if blocks.get("BOX") else None)
    return {"ids": ids, "vids": vids, "pos": pos,
            "vel": vel if "VELOCITY" in blocks else None, "box": box}


def xyz_parse(path):
    """-> list of dict(ids (names), pos, vel|None, box|None)."""
    with open(path, encoding="utf-8") as fh:
        lines = fh.read().split("\n")
    while lines and not lines[-1].strip():
        lines.pop()
    frames, i = [], 0
    while i < len(lines):
        n = int(lines[i])
        low = lines[i + 1].lower()
        box = (np.array(low[low.index("box:") + 4:].split(), dtype=float)
               if "box:" in low else None)
        rows = [ln.split() for ln in lines[i + 2:i + 2 + n]]
        if len(rows) != n:
            raise ValueError("short xyz frame")
        num = np.array([[float(x) for x in r[1:]] for r in rows])
        num = num.reshape(n, -1)
        frames.append({"ids": [r[0] for r in rows], "pos": num[:, :3],
                       "vel": num[:, 3:6] if num.shape[1] >= 6 else None,
                       "box": box})
        i += 2 + n
    return frames


def lammpstrj_parse(path):
    """-> list of dict(ids [(id, type)], pos, vel, box) sorted by atom id."""
    with open(path, encoding="utf-8") as fh:
        text = fh.read()
    frames = []
    for chunk in text.split("ITEM: TIMESTEP")[1:]:
        parts = chunk.split("ITEM:")
        natoms = int(parts[1].split("\n")[1])
        box = np.array([ln.split() for ln in parts[2].split("\n")[1:]
                        if ln.strip()], dtype=float)
        rows = [ln.split() for ln in parts[3].split("\n")[1:] if ln.strip()]
        if len(rows) != natoms:
            raise ValueError("atom count mismatch in dump frame")
        rows.sort(key=lambda r: int(float(r[0])))
        tab = np.array([[float(x) for x in r[:8]] for r in rows])
        tab = tab.reshape(natoms, 8)
        frames.append({"ids": [(int(r[0]), int(r[1])) for r in tab],
                       "pos": tab[:, 2:5], "vel": tab[:, 5:8], "box": box})
    return frames
