"""Reference permanents and P matrices (independent of the repository).

perm(A) by dynamic programming over column subsets: only additions and
multiplications of the entries, so it is exact for ints / Fractions and, for
non-negative floats, free of cancellation.
"""
from fractions import Fraction
from itertools import permutations


def perm_dp(a):
    n = len(a)
    if n == 0:
        return 1
    dp = {0: 1}
    for i in range(n):
        row = a[i]
        new = {}
        for mask, val in dp.items():
            if not val:
                continue
            for j in range(n):
                if mask >> j & 1:
                    continue
                w = row[j]
                if not w:
                    continue
                m2 = mask | (1 << j)
                new[m2] = new.get(m2, 0) + val * w
        dp = new
    return dp.get((1 << n) - 1, 0)


def perm_brute(a):
    n = len(a)
    tot = 0
    for p in permutations(range(n)):
        t = 1
        for i in range(n):
            t = t * a[i][p[i]]
            if not t:
                break
        tot += t
    return tot


def minor(a, i, j):
    return [[a[r][c] for c in range(len(a)) if c != j]
            for r in range(len(a)) if r != i]


def p_matrix(w, exact=False):
    """P_ij = W_ij perm(W\\i,j)/perm(W).  Returns (P, perm) ; P None if perm==0."""
    n = len(w)
    if exact:
        w = [[Fraction(x).limit_denominator(10**12) if not isinstance(x, int)
              else Fraction(x) for x in row] for row in w]
    tot = perm_dp(w)
    if not tot:
        return None, tot
    out = [[0] * n for _ in range(n)]
    for i in range(n):
        for j in range(n):
            if w[i][j]:
                out[i][j] = w[i][j] * perm_dp(minor(w, i, j)) / tot
    return out, tot
