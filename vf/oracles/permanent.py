"""Reference permanents and P matrices (independent of the repository).

perm(A) by dynamic programming over column subsets: only additions and
multiplications of the entries, so it is exact for ints / Fractions and, for
non-negative floats, free of cancellation.
"""
from fractions import Fraction
from itertools import permutations


def perm_dp(a):
    n = len(a)
    if n == 0:
        return 1
    dp = {0: 1}
    for i in range(n):
        row = a[i]
        new = {}
        for mask, val in dp.items():
            if not val:
                continue
            for j in range(n):
                if mask >> j & 1:
                    continue
                w = row[j]
                if not w:
                    continue
                m2 = mask | (1 << j)
                new[m2] = new.get(m2, 0) + val * w
        dp = new
    return dp.get((1 << n) - 1, 0)


def perm_brute(a):
    n = len(a)
    tot = 0
    for p in permutations(range(n)):
        t = 1
        for i in range(n):
            t = t * a[i][p[i]]
            if not t:
                break
        tot += t
    return tot


def minor(a, i, j):
    return [[a[r][c] for c in range(len(a)) if c != j]
            for r in range(len(a)) if r != i]


def p_matrix(w, exact=False):
    """P_ij = W_ij perm(W\\i,j)/perm(W).  Returns (P, perm) ; P None if perm==0."""
    n = len(w)
    if exact:
        w = [[Fraction(x).limit_denominator(10**12) if not isinstance(x, int)
              else Fraction(x) for x in row] for row in w]
    tot = perm_dp(w)
    if not tot:
        return None, tot
    out = [[0] * n for _ in range(n)]
    for i in range(n):
        for j in range(n):
            if w[i][j]:
                out[i][j] = w[i][j] * perm_dp(minor(w, i, j)) / tot
    return out, tot


def p_matrix_blocks(w, max_block=12):
    """P for a square matrix whose rows are prefix-supported (row i is
    non-zero exactly in its first r_i columns - the staircase family the
    sampler produces, in any row order), computed block by block.

    With the rows sorted by reach, a prefix of k rows whose largest reach is k
    can only be matched to the first k columns (Hall), so every perfect
    matching splits there: P is block diagonal and inside a block equals the
    block's own permanent ratios.  Returns (P, sizes) with P None when there
    is no perfect matching, or (False, sizes) when a block exceeds max_block
    (too expensive here).
    """
    n = len(w)
    reach = []
    for row in w:
        r = sum(1 for x in row if x)
        if any(not x for x in row[:r]):
            raise ValueError("row is not prefix-supported")
        reach.append(r)
    order = sorted(range(n), key=lambda i: reach[i])
    blocks, start = [], 0
    for k in range(1, n + 1):
        if reach[order[k - 1]] < k:
            return None, []
        if reach[order[k - 1]] == k:
            blocks.append((start, k))
            start = k
    if start != n:
        return None, []
    sizes = [b - a for a, b in blocks]
    if max(sizes, default=0) > max_block:
        return False, sizes
    out = [[0] * n for _ in range(n)]
    for a, b in blocks:
        rows = order[a:b]
        sub = [[w[i][j] for j in range(a, b)] for i in rows]
        pb, tot = p_matrix(sub)
        if pb is None:
            return None, sizes
        for x, i in enumerate(rows):
            for y, j in enumerate(range(a, b)):
                out[i][j] = pb[x][y]
    return out, sizes
