"""Independent reference semantics for the three input-template editors (C19).

* mdp: a file is the ordered list of ``key = value`` entries (text after ';'
  is a comment, blank lines and comment lines carry no entry).
* CP2K: a file is a forest of sections; a section has an upper-cased title,
  a parameter list, an ordered list of keyword lines and a set of
  sub-sections (sibling order immaterial).  Lines starting with '#' or '!'
  are comments.
* LAMMPS: a template is a sequence of lines; an edit replaces the
  whitespace-delimited tokens that are exactly a requested variable name.
Nothing here imports infretis.
"""
import copy
import re

# ----------------------------------------------------------------------- mdp


def mdp_entries(text):
    out = []
    for line in text.split("\n"):
        body = line.split(";", 1)[0]
        if "=" in body:
            key, val = body.split("=", 1)
            out.append((key.strip(), val.strip()))
    return out


# ---------------------------------------------------------------------- CP2K


class Sec:
    def __init__(self, title, params=None):
        self.title, self.params = title.upper(), list(params or [])
        self.lines, self.kids = [], []

    def canon(self):
        return (self.title, tuple(self.params), tuple(self.lines),
                tuple(sorted(k.canon() for k in self.kids)))


def cp2k_parse(text):
    """-> list of root Sec."""
    roots, stack = [], []
    for raw in text.split("\n"):
        line = raw.strip()
        if not line or line[0] in "#!":
            continue
        if line[0] == "&":
            words = line[1:].split()
            if words[0].upper() == "END":
                stack.pop()
                continue
            node = Sec(words[0], words[1:])
            (stack[-1].kids if stack else roots).append(node)
            stack.append(node)
        elif stack:
            stack[-1].lines.append(" ".join(line.split()))
    if stack:
        raise ValueError("unbalanced CP2K sections")
    return roots


def _find(roots, path):
    """Locate 'A->B->C' (or 'A->B->C-><params>' when C has same-titled
    siblings).  Returns (node | None, parent_list, remaining_titles)."""
    titles = path.split("->")
    level, node, i = roots, None, 0
    while i < len(titles):
        same = [k for k in level if k.title == titles[i]]
        if not same:
            return None, level, titles[i:]
        if len(same) > 1:
            want = titles[i + 1] if i + 1 < len(titles) else None
            pick = [k for k in same if " ".join(k.params) == want]
            if len(pick) != 1:
                return None, level, titles[i:]
            node, i = pick[0], i + 2
        else:
            node, i = same[0], i + 1
        level = node.kids
    return node, level, []


def cp2k_apply(roots, update, remove):
    """Reference edit on a deep copy.  Returns (new_roots, info) where
    info[target] = dict(created=bool, node=Sec, old_params=[...])."""
    roots = copy.deepcopy(roots)
    info = {}
    # all addresses refer to the template as it was read
    found = {t: _find(roots, t) for t in list(update or {}) + list(remove or [])}
    for target, val in (update or {}).items():
        data = val.get("data", {})
        node, level, rest = found[target]
        if node is None:       # may hang below a section created just before
            node, level, rest = _find(roots, target)
        created = node is None
        if created:
            for j, title in enumerate(rest):
                node = Sec(title)
                level.append(node)
                level = node.kids
        info[target] = {"created": created, "node": node,
                        "old_params": list(node.params),
                        "old_lines": list(node.lines)}
        if isinstance(data, dict):
            for key, value in data.items():
                new = str(key) if value is None else f"{key} {value}"
                new = " ".join(new.split())
                hit = [n for n, ln in enumerate(node.lines)
                       if ln.split()[0] == key]
                if hit:
                    for n in hit:
                        node.lines[n] = new
                else:
                    node.lines.append(new)
        else:
            node.lines = [" ".join(str(ln).split()) for ln in data]
        if val.get("settings"):
            node.params = [str(s) for s in val["settings"]]
    for target in remove or []:
        node, level, rest = found[target]
        if node is None:
            continue
        _drop(roots, node)
    return roots, info


def _drop(level, node):
    for k in list(level):
        if k is node:
            level.remove(k)
            return True
        if _drop(k.kids, node):
            return True
    return False


def cp2k_diff(exp, got, path=""):
    """List of (path, kind, expected_node, got_node) over two forests,
    matching siblings by (title, params) first and by title second.  kind is
    one of missing / extra / params / lines / lines-order."""
    out = []
    rest = list(got)
    pairs, loose = [], []
    for e in exp:
        m = [g for g in rest if g.title == e.title and g.params == e.params]
        if m:
            rest.remove(m[0])
            pairs.append((e, m[0]))
        else:
            loose.append(e)
    for e in loose:
        m = [g for g in rest if g.title == e.title]
        m.sort(key=lambda g: (sorted(g.lines) != sorted(e.lines))
               + (sorted(k.canon() for k in g.kids)
                  != sorted(k.canon() for k in e.kids)))
        if m:
            rest.remove(m[0])
            pairs.append((e, m[0]))
        else:
            out.append((path + e.title, "missing", e, None))
    for g in rest:
        out.append((path + g.title, "extra", None, g))
    for e, g in pairs:
        here = path + e.title
        if e.params != g.params:
            out.append((here, "params", e, g))
        if e.lines != g.lines:
            kind = "lines" if sorted(e.lines) != sorted(g.lines) \
                else "lines-order"
            out.append((here, kind, e, g))
        out += cp2k_diff(e.kids, g.kids, here + "->")
    return out


# -------------------------------------------------------------------- LAMMPS


def lammps_expected(text, settings):
    rep = {k: str(v) for k, v in settings.items()}
    return re.sub(r"\S+", lambda m: rep.get(m.group(), m.group()), text)


def lammps_token_lines(text, var):
    """Numbers of the lines that hold `var` as a whole token."""
    return [i for i, ln in enumerate(text.split("\n")) if var in ln.split()]
