"""Independent references for C12: order parameters written from their
definitions and frame readers that do not use any infretis code.

A frame is returned as {"x": [[..3]..], "v": [[..3]..], "box": [lx,ly,lz]|None}
in the convention the engines hand to the order parameter (LAMMPS positions
relative to the lower box bounds, box = edge lengths)."""
import math

from vf.stubs import stublib as sl


def _min_image(d, box):
    out = []
    for c, length in zip(d, box):
        out.append(c - length * round(c / length) if length else c)
    return out


def order_value(spec, x, v, box):
    """spec = the [orderparameter] settings; v = velocities in the frame's own
    direction (already multiplied by -1 if the frame is flagged vel_rev)."""
    cls = spec["class"].lower()
    if cls == "site":
        return x[0][0] + (0.25 * v[0][0] if spec.get("velocity") else 0.0)
    if cls == "position":
        return x[spec["index"][0]][spec["index"][1]]
    if cls == "velocity":
        return v[spec["index"]][{"x": 0, "y": 1, "z": 2}[spec["dim"]]]
    i, j = spec["index"]
    d = [b - a for a, b in zip(x[i], x[j])]
    if spec.get("periodic") and box is not None:
        d = _min_image(d, box[:3])
    r = math.sqrt(sum(c * c for c in d))
    if cls == "distance":
        return r
    if cls == "distancevel":
        dv = [b - a for a, b in zip(v[i], v[j])]
        return sum(a * b for a, b in zip(d, dv)) / r
    raise ValueError(cls)


def half_box_margin(spec, x, box):
    """Distance of |dx| from L/2 (where minimum-image conventions differ)."""
    if not spec.get("periodic") or box is None or "index" not in spec or \
            spec["class"].lower() not in ("distance", "distancevel"):
        return 1.0
    i, j = spec["index"]
    return min(abs(abs(b - a) - 0.5 * length)
               for a, b, length in zip(x[i], x[j], box[:3]) if length)


def read_lammps(path, idx):
    x, v, box = sl.read_lammps_frame(path, idx)
    lo = [b[0] for b in box]
    return {"x": [[c - l for c, l in zip(r, lo)] for r in x], "v": v,
            "box": [b[1] - b[0] for b in box], "raw_x": x, "raw_box": box}


def read_xyz(path, idx):
    _, x, v, box = sl.read_xyz_frame(path, idx)
    return {"x": x, "v": v, "box": box, "raw_x": x}


def read_trr(path, idx):
    x, v, box9, _ = sl.read_trr_frame(path, idx)
    diag = [box9[0], box9[4], box9[8]]
    return {"x": x, "v": v, "box": diag, "raw_x": x, "raw_box": diag}


def read_g96(path, idx):
    x, v, box = sl.read_g96(path)
    b = box[:3] if box else None
    return {"x": x, "v": v, "box": b, "raw_x": x, "raw_box": b}


def read_ase(path, idx):
    from ase.io.trajectory import Trajectory
    tr = Trajectory(path)
    at = tr[idx or 0]
    tr.close()
    return {"x": at.positions.tolist(), "v": at.get_velocities().tolist(),
            "box": [float(c) for c in at.cell.diagonal()],
            "raw_x": at.positions.tolist()}


def read_lat(path, idx):
    with open(path) as f:
        rows = [ln.split() for ln in f if len(ln.split()) >= 2]
    xx, vv = int(rows[idx or 0][0]), int(rows[idx or 0][1])
    return {"x": [[float(xx), 0.0, 0.0]], "v": [[float(vv), 0.0, 0.0]],
            "box": None, "raw_x": [[float(xx), 0.0, 0.0]]}


def reader_for(path):
    ext = path.rsplit(".", 1)[-1]
    return {"lammpstrj": read_lammps, "xyz": read_xyz, "trr": read_trr,
            "g96": read_g96, "traj": read_ase, "lat": read_lat}[ext]


def read_frame(config):
    path, idx = config
    return reader_for(path)(path, idx or 0)
