"""Independent definition of the wire-fencing sub-paths and weights (C10).

Written from the property text, not from infretis/core/tis.py:

  * a frame is *inside* iff  left <= op < right   (the region [lambda_i, cap))
  * a sub-path is a maximal run of consecutive inside frames that has an
    outside neighbour on both sides; it is classified by the sides of the two
    neighbours (L: op < left, R: op >= right) as LL / LR / RL / RR
  * qualifying sub-paths are LL, LR and RL; the weight is the number of inside
    frames lying on qualifying sub-paths
  * the weight is doubled when the path connects the two outer sides
    (first frame <= lambda_0 and last frame >= cap, or the other way round)
  * a seed segment is drawn with probability proportional to its frame count:
    u in [0,1) selects the sub-path whose cumulative frame-count interval
    contains u (exact rational arithmetic).

The implementation classifies frames first and then groups them (itertools),
which shares nothing with the pair-scanning state machine under test.
"""
from fractions import Fraction
from itertools import groupby


def classes(orders, left, right):
    """Return one of 'L', 'M', 'R' per frame."""
    return ["M" if left <= x < right else ("L" if x < left else "R")
            for x in orders]


def subpaths(orders, left, right):
    """All sub-paths [(first_inside, last_inside, kind)], kind in LL/LR/RL/RR.

    An empty region (right <= left) has no inside frame, hence no sub-path.
    """
    if not right > left:
        return []
    cls = classes(orders, left, right)
    out, pos = [], 0
    for key, grp in groupby(cls):
        n = len(list(grp))
        a, b = pos, pos + n - 1
        pos += n
        if key == "M" and a > 0 and b < len(cls) - 1:
            out.append((a, b, cls[a - 1] + cls[b + 1]))
    return out


def qualifying(orders, left, right):
    """[(entry_index, exit_index, n_inside)] of the LL / LR / RL sub-paths.

    entry/exit are the outside neighbours, so the seed segment consists of
    the frames entry..exit inclusive.
    """
    return [(a - 1, b + 1, b - a + 1)
            for a, b, kind in subpaths(orders, left, right) if kind != "RR"]


def count(orders, left, right):
    return sum(q[2] for q in qualifying(orders, left, right))


def side(x, lam0, cap):
    """Outer side of an end point: 'L', 'R' or None (strictly in between)."""
    if x <= lam0:
        return "L"
    if x >= cap:
        return "R"
    return None


def connects_outer_sides(orders, lam0, cap):
    s, e = side(orders[0], lam0, cap), side(orders[-1], lam0, cap)
    return s is not None and e is not None and s != e


def ends_defined(orders, lam0, cap):
    return (side(orders[0], lam0, cap) is not None
            and side(orders[-1], lam0, cap) is not None)


def weight(orders, lam0, lam_i, cap):
    """High-acceptance wire-fencing weight of a path."""
    w = count(orders, lam_i, cap)
    return 2 * w if connects_outer_sides(orders, lam0, cap) else w


def crossing(orders, lam):
    return 1.0 if max(orders) >= lam else 0.0


def weight_vector(orders, interfaces, moves, cap=None):
    """Weight vector of a plus path: one entry per interface, last one 0."""
    cap_eff = interfaces[-1] if cap is None else cap
    vec = []
    for i, lam in enumerate(interfaces[:-1]):
        if moves[i + 1] == "wf":
            vec.append(float(weight(orders, interfaces[0], lam, cap_eff)))
        else:
            vec.append(crossing(orders, lam))
    vec.append(0.0)
    return tuple(vec)


def pick(quals, u, tol=Fraction(1, 2 ** 50)):
    """Indices (into quals) of the segments that u may select.

    Exact rational arithmetic: segment j owns the interval between cum_{j-1}/n
    and cum_j/n.  Strictly inside -> exactly one index.  A u within `tol`
    (a few ulp) of an interior boundary has probability ~0 and the property
    does not say which neighbour owns it -> both are returned.
    """
    n = sum(q[2] for q in quals)
    fu, cum, out = Fraction(u), 0, []
    for j, q in enumerate(quals):
        lo, cum = Fraction(cum, n), cum + q[2]
        if lo - tol <= fu <= Fraction(cum, n) + tol:
            out.append(j)
    return out
