"""Plug-in engines and order parameter used by the verification workloads.

Loaded by infretis itself through its external plug-in interface
(``class`` / ``module`` keys of the [engine] and [orderparameter] sections →
``create_external``).  They subclass the repository's ``EngineBase`` and use its
``propagate``, ``add_to_path``, ``dump_frame``, ``calculate_order`` unchanged.

LatticeEngine   symmetric +-1 random walk on the integers with a lazily
                reflecting wall on the far left: reversible with respect to
                the uniform measure, so with interfaces at k+1/2 gambler's ruin
                gives P(lambda_{k+1} | lambda_k) = (k+1)/(k+2) exactly.
BallisticEngine deterministic, exactly time-reversible integer dynamics
                x <- x+v with elastic walls; optional potential table (vpot)
                and kinetic energy, for the zero-swap / QuanTIS / retrace
                monitors.

Frame file format (extension .lat): one frame per line, ``x v``.
"""
import os

import numpy as np

from infretis.classes.engines.enginebase import EngineBase
from infretis.classes.orderparameter import OrderParameter


def read_frames(filename):
    out = []
    with open(filename) as f:
        for line in f:
            s = line.split()
            if len(s) >= 2:
                out.append((int(s[0]), int(s[1])))
    return out


class SiteOrder(OrderParameter):
    """Order parameter = lattice site (optionally + velocity as 2nd CV)."""

    def __init__(self, velocity=False, offset=0.0):
        super().__init__(description="lattice site", velocity=bool(velocity))
        self.use_vel = bool(velocity)
        self.offset = float(offset)

    def calculate(self, system):
        if self.use_vel:
            # velocity dependent variant: x + 0.25*v (still off the half
            # integers): used by the C12 monitors
            return [float(system.pos[0][0]) + 0.25 * float(system.vel[0][0])
                    + self.offset]
        return [float(system.pos[0][0]) + self.offset]


class _LatBase(EngineBase):
    def __init__(self, description, timestep, subcycles):
        super().__init__(description, timestep, subcycles)
        self.ext = "lat"
        self._beta = 1.0
        self.name = "lattice"
        self.n_propagate = 0  # monitors read this (engine call counter)

    def step(self):  # required by create_external(..., ["step"])
        return None

    def set_mdrun(self, md_items):
        self.exe_dir = md_items["exe_dir"]

    def _extract_frame(self, traj_file, idx, out_file):
        frames = read_frames(traj_file)
        x, v = frames[idx]
        with open(out_file, "w") as f:
            f.write(f"{x} {v}\n")

    @staticmethod
    def _read_configuration(filename):
        x, v = read_frames(filename)[0]
        xyz = np.array([[float(x), 0.0, 0.0]])
        vel = np.array([[float(v), 0.0, 0.0]])
        return xyz, vel, np.zeros(3), ["A"]

    def _reverse_velocities(self, filename, outfile):
        x, v = read_frames(filename)[0]
        with open(outfile, "w") as f:
            f.write(f"{x} {-v}\n")

    def _order(self, system, x, v):
        return self.calculate_order(
            system,
            xyz=np.array([[float(x), 0.0, 0.0]]),
            vel=np.array([[float(v), 0.0, 0.0]]),
            box=np.zeros(3),
        )

    def _advance(self, x, v):
        raise NotImplementedError

    def _energies(self, x, v):
        return None, None

    def _propagate_from(self, name, path, system, ens_set, msg_file,
                        reverse=False):
        self.n_propagate += 1
        left, _, right = ens_set["interfaces"]
        x, v = read_frames(system.config[0])[0]
        traj_file = os.path.join(self.exe_dir, f"{name}.{self.ext}")
        status, success = "propagating", False
        step_nr = 0
        ekin, vpot = [], []
        with open(traj_file, "w") as out:
            while True:
                out.write(f"{x} {v}\n")
                out.flush()
                order = self._order(system, x, v)
                snapshot = {"order": order, "config": (traj_file, step_nr),
                            "vel_rev": reverse}
                e_k, e_p = self._energies(x, v)
                if e_p is not None:
                    snapshot["vpot"], snapshot["ekin"] = e_p, e_k
                    ekin.append(e_k)
                    vpot.append(e_p)
                phase_point = self.snapshot_to_system(system, snapshot)
                status, success, stop, _ = self.add_to_path(
                    path, phase_point, left, right)
                if stop:
                    break
                for _ in range(self.subcycles):
                    x, v = self._advance(x, v)
                step_nr += 1
        msg_file.write("# Propagation done.")
        return success, status


class LatticeEngine(_LatBase):
    """Symmetric random walk, lazily reflecting wall at ``wall``."""

    def __init__(self, timestep=1.0, subcycles=1, wall=-4):
        super().__init__("lattice random walk", timestep, subcycles)
        self.wall = int(wall)

    def _advance(self, x, v):
        d = 1 if self.rgen.random() < 0.5 else -1
        if x + d < self.wall:
            return x, -d  # proposal rejected: stay (lazy reflection)
        return x + d, d

    def modify_velocities(self, system, vel_settings):
        # the walk has no momenta; draw a +-1 label from the engine stream so
        # that the engine stream is exercised like in the MD engines.
        frame = self.dump_frame(system)
        x, _ = read_frames(frame)[0]
        v = 1 if self.rgen.random() < 0.5 else -1
        conf_out = os.path.join(self.exe_dir, f"genvel.{self.ext}")
        with open(conf_out, "w") as f:
            f.write(f"{x} {v}\n")
        system.config = (conf_out, 0)
        system.ekin = 0.5
        return 0.0, 0.5


class BallisticEngine(_LatBase):
    """x <- x + v with |v| = 1, elastic walls at lo and hi (exactly reversible).

    ``vtab`` (optional) maps site -> potential energy (list indexed by
    x - lo); ``beta`` sets engine.beta.
    """

    def __init__(self, timestep=1.0, subcycles=1, lo=-5, hi=9, vtab=None,
                 beta=1.0, regen=True):
        super().__init__("ballistic lattice", timestep, subcycles)
        self.lo, self.hi = int(lo), int(hi)
        self.vtab = list(vtab) if vtab is not None else None
        self._beta = float(beta)
        self.regen = bool(regen)

    def _advance(self, x, v):
        if v == 0:
            v = 1
        nx = x + v
        if nx > self.hi or nx < self.lo:
            return x, -v  # elastic bounce: a frame with reversed velocity
        return nx, v

    def _energies(self, x, v):
        if self.vtab is None:
            return None, None
        return 0.5 * v * v, float(self.vtab[x - self.lo])

    def modify_velocities(self, system, vel_settings):
        frame = self.dump_frame(system)
        x, v0 = read_frames(frame)[0]
        if self.regen:
            v = 1 if self.rgen.random() < 0.5 else -1
        else:
            v = v0  # aimless shooting switched off: keep the stored velocity
        conf_out = os.path.join(self.exe_dir, f"genvel.{self.ext}")
        with open(conf_out, "w") as f:
            f.write(f"{x} {v}\n")
        system.config = (conf_out, 0)
        system.ekin = 0.5
        return 0.0, 0.5


class ScriptedEngine(_LatBase):
    """Emits prescribed trajectories: ``back`` (``forw``) frames when run
    backward (forward): the start site repeated, then one frame outside the
    interfaces (below ``left`` when backward or when ``forw_end`` == "L",
    above ``right`` otherwise).  Used to put a shooting trial exactly on an
    acceptance boundary."""

    def __init__(self, timestep=1.0, subcycles=1, back=3, forw=3,
                 forw_end="R", back_end="L"):
        super().__init__("scripted lattice", timestep, subcycles)
        self.back, self.forw = int(back), int(forw)
        self.forw_end, self.back_end = forw_end, back_end

    def _propagate_from(self, name, path, system, ens_set, msg_file,
                        reverse=False):
        import math
        left, _, right = ens_set["interfaces"]
        self._n = self.back if reverse else self.forw
        end = self.back_end if reverse else self.forw_end
        self._out = (math.floor(left) if end == "L" else math.ceil(right))
        self._k = 0
        return super()._propagate_from(name, path, system, ens_set, msg_file,
                                       reverse=reverse)

    def _advance(self, x, v):
        self._k += 1
        if self._k >= self._n - 1:
            return self._out, v
        return x, v

    def modify_velocities(self, system, vel_settings):
        frame = self.dump_frame(system)
        x, _ = read_frames(frame)[0]
        conf_out = os.path.join(self.exe_dir, f"genvel.{self.ext}")
        with open(conf_out, "w") as f:
            f.write(f"{x} 1\n")
        system.config = (conf_out, 0)
        system.ekin = 0.5
        return 0.0, 0.5
