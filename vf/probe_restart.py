"""Post-crash / restart-load probe, run in its own process.

    python -m vf.probe_restart <case-dir> [--picks]

Copies nothing: works in the directory given (callers pass a scratch copy).
Prints one JSON object: {"loads": bool, "none": bool, "error": str|None,
 "active": [...], "zero_weight_slots": [...], "missing_files": [...],
 "locked": [...], "picked": [[ens..],[paths..]] ...}
"""
import importlib.util  # noqa: F401
import json
import os
import sys
import traceback


def probe(cdir, picks=False, inp="restart.toml"):
    out = {"loads": False, "none": False, "error": None, "active": [],
           "zero_weight_slots": [], "missing_files": [], "locked": [],
           "picked": []}
    os.chdir(cdir)
    try:
        from infretis.setup import setup_config, setup_internal
        if not os.path.isfile(inp):
            out["error"] = "no restart file"
            return out
        config = setup_config(inp)
        if config is None:
            out["none"] = True
            return out
        out["active"] = list(config["current"]["active"])
        out["locked"] = [list(map(list, l)) if isinstance(l, (list, tuple))
                         else l for l in config["current"].get("locked", [])]
        out["cstep"] = config["current"]["cstep"]
        md_items, state = setup_internal(config)
        out["loads"] = True
        for i in range(state.n - 1):
            if state.state[i][i] == 0:
                out["zero_weight_slots"].append(
                    [i, state._trajs[i].path_number])
        for t in state._trajs[:-1]:
            for a in t.adress:
                if not os.path.isfile(a):
                    out["missing_files"].append(a)
        if picks:
            import copy
            while state.initiate():
                w = copy.deepcopy(md_items)
                w = state.prep_md_items(w)
                out["picked"].append(
                    [[int(e) + state._offset for e in w["ens_nums"]],
                     [str(p) for p in w["pnum_old"]]])
    except BaseException as exc:  # reported, the caller decides
        out["error"] = f"{type(exc).__name__}: {exc}"
        out["tb"] = traceback.format_exc()[-1500:]
    return out


def run_probe(cdir, picks=False, timeout=120):
    """Helper for callers: run the probe in a fresh interpreter."""
    import subprocess
    env = dict(os.environ)
    env["PYTHONPATH"] = os.environ.get("VERIF_REPO", "/repo") + ":" + os.path.dirname(
        os.path.dirname(os.path.abspath(__file__)))
    cmd = [sys.executable, "-m", "vf.probe_restart", cdir]
    if picks:
        cmd.append("--picks")
    try:
        p = subprocess.run(cmd, env=env, timeout=timeout,
                           stdout=subprocess.PIPE, stderr=subprocess.PIPE)
    except subprocess.TimeoutExpired:
        return {"timeout": True}
    for line in reversed(p.stdout.decode(errors="replace").splitlines()):
        if line.startswith("{"):
            return json.loads(line)
    return {"error": "probe produced no output: " +
            p.stderr.decode(errors="replace")[-800:], "loads": False,
            "none": False}


if __name__ == "__main__":
    res = probe(sys.argv[1], picks="--picks" in sys.argv)
    sys.stdout.write("\n" + json.dumps(res, default=str) + "\n")
