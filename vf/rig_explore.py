"""Exhaustive abstract-state exploration of small REPEX systems (C03/C05/C02).

The *real* ``REPEX_state`` object is driven through the same call sequence as
``scheduler()`` (initiate / prep_md_items / loop / treat_output) and explored
to a fixed point by snapshot/restore, branching over

  * every (path, ensemble) the real ``pick`` can draw with non-zero
    probability, both outcomes of the zero-swap coin and every partner path
    (scripted ``rgen.choice`` / ``rgen.random``),
  * which in-flight job completes next,
  * rejection, or acceptance with every weight staircase the new path(s)
    could have and still be valid in their ensemble(s).

States are de-duplicated by an abstract signature (per slot: reach of the
path and rank of its path number; lock vector; in-flight jobs; engine table;
initiation counter).  Shooting ensembles only (0/1 weights) - with
wire-fencing weights the space is infinite.  Path storage, data file and
restart file are replaced by in-memory stand-ins *in this driver only*.
"""
import importlib.util  # noqa: F401
import copy
import os
import pickle
import time

import numpy as np


class ScriptRgen:
    """Scripted stand-in for the scheduler's Generator."""

    def __init__(self, bit_generator=None):
        self.bit_generator = bit_generator or np.random.PCG64(0)
        self.script = []
        self.pos = 0
        self.trace = []   # number of options at each decision

    def _decide(self, options):
        if self.pos < len(self.script):
            k = self.script[self.pos]
        else:
            k = 0
        self.pos += 1
        self.trace.append(len(options))
        return options[k]

    def choice(self, n, p=None):
        opts = [i for i in range(int(n)) if p[i] > 0]
        return self._decide(opts)

    def random(self, *a):
        return self._decide([0.25, 0.75])


class FP:
    """Minimal path stand-in (only what REPEX_state touches)."""

    def __init__(self, reach, intf, minus=False):
        self.path_number = None
        self.reach = reach
        self.minus = minus
        top = intf[0] - 1.0 if minus else intf[reach - 1] + 0.25
        self.ordermax = (top if not minus else intf[0] + 0.25, 0)
        self.ordermin = (intf[0] - 1.0, 0)
        self.length = 3
        self.adress = set()
        self.status = "ACC"
        self.generated = ("sh", 0, 0, 0)
        if minus:
            self.weights = (1.0,)
        else:
            npl = len(intf) - 1
            self.weights = tuple([1.0 if j < reach else 0.0
                                  for j in range(npl)] + [0.0])


class _Store:
    def output(self, step, data):
        return data["path"]


def make_state(size, workers):
    from infretis.classes.repex import REPEX_state
    from vf import rig_sched as R
    R.reset_globals()
    intf = [k + 0.5 for k in range(size)]
    cfg = {
        "current": {"size": size, "cstep": 0, "traj_num": size,
                    "active": list(range(size)), "locked": [], "frac": {}},
        "runner": {"workers": workers},
        "simulation": {"seed": 0, "interfaces": intf, "steps": 10 ** 9,
                       "shooting_moves": ["sh"] * size, "load_dir": "load",
                       "tis_set": {"lambda_minus_one": False,
                                   "maxlength": 100},
                       "ensemble_engines": [["engine"]] * size},
        "output": {"screen": 0, "data_dir": ".", "data_file": os.devnull,
                   "pattern": False},
    }
    st = REPEX_state(cfg, minus=True)
    st.initiate_ensembles()
    paths = [FP(1, intf, minus=True)]
    for i in range(size - 1):
        paths.append(FP(i + 1, intf))
    for i, p in enumerate(paths):
        p.path_number = i
    st.load_paths(paths)
    st.engine_occ = {"engine": [-1] * workers}
    st.pstore = _Store()
    st.write_toml = lambda: None
    st.rgen = ScriptRgen()
    return st, intf


def signature(st, phase, flight):
    off = st._offset
    pns = [t.path_number for t in st._trajs[:-1]]
    order = sorted(pns)
    slots = tuple((("m" if t.minus else t.reach), order.index(t.path_number))
                  for t in st._trajs[:-1])
    fl = tuple(sorted((tuple(j["ens_nums"]), j["pin"]) for j in flight))
    occ = tuple(tuple(v) for k, v in sorted(st.engine_occ.items()))
    return (phase, slots, tuple(int(x) for x in st._locks), fl, occ,
            st.toinitiate, tuple(map(tuple, (np.asarray(st.state) != 0)
                                     .astype(int).tolist())))


def snapshot(st, rig, flight, last_md):
    """Pickled copy of the real object's state + the monitors that carry
    history (the ProbMonitor only holds a cache and is left alone)."""
    from infretis.classes.repex import REPEX_state
    d = {k: v for k, v in st.__dict__.items()
         if k not in ("pstore", "write_toml")}
    mons = [m.__dict__ for m in rig.monitors
            if type(m).__name__ != "ProbMonitor"]
    return pickle.dumps((d, dict(REPEX_state.traj_data), mons, flight,
                         last_md), protocol=pickle.HIGHEST_PROTOCOL)


def restore(st, rig, snap):
    from infretis.classes.repex import REPEX_state
    d, td, mons, flight, last_md = pickle.loads(snap)
    keep = {k: st.__dict__[k] for k in ("pstore", "write_toml")}
    st.__dict__.clear()
    st.__dict__.update(d)
    st.__dict__.update(keep)
    REPEX_state.traj_data.clear()
    REPEX_state.traj_data.update(td)
    live = [m for m in rig.monitors if type(m).__name__ != "ProbMonitor"]
    for m, md in zip(live, mons):
        m.__dict__.clear()
        m.__dict__.update(md)
    return flight, last_md


def explore(size, workers, budget_s, scratch, max_states=None):
    from vf import rig_sched as R
    from vf.monitors import LockMonitor, StallMonitor, ProbMonitor
    R.install_patches()
    os.makedirs(scratch, exist_ok=True)
    old = os.getcwd()
    os.chdir(scratch)
    st, intf = make_state(size, workers)
    rig = R.Rig(scratch, [LockMonitor(), StallMonitor(), ProbMonitor()])
    rig.state = st
    rig.no_restart_file = True   # write_toml is a stand-in in this driver
    R.Rig.current = rig
    rig.hook("on_state", st)
    P = size - 1
    base_md = {"mc_moves": st.mc_moves, "interfaces": st.interfaces,
               "cap": st.cap}
    t0 = time.time()
    seen = {}
    stack = []
    ntrans = 0
    complete = True

    def push(phase, flight, last_md):
        sig = signature(st, phase, flight)
        if sig in seen:
            return
        seen[sig] = len(seen)
        stack.append((phase, snapshot(st, rig, flight, last_md)))

    def scripts_from(snap, fn):
        """Enumerate all decision scripts of fn() by replay; yields after
        each complete execution (state left as fn() produced it)."""
        todo = [[]]
        while todo:
            script = todo.pop()
            flight, last_md = restore(st, rig, snap)
            st.rgen.script, st.rgen.pos, st.rgen.trace = script, 0, []
            out = fn(flight, last_md)
            trace = st.rgen.trace
            # spawn siblings for the decisions beyond the given script
            for d in range(len(script), len(trace)):
                for alt in range(1, trace[d]):
                    todo.append(list(script) + [0] * (d - len(script)) +
                                [alt])
            yield out

    push("init", [], None)
    try:
        while stack:
            if time.time() - t0 > budget_s or (
                    max_states and len(seen) > max_states):
                complete = False
                break
            phase, snap = stack.pop()
            if phase == "init":
                def start(flight, last_md):
                    if not st.initiate():
                        return ("loop", flight, last_md)
                    md = st.prep_md_items(copy.deepcopy(base_md))
                    flight = flight + [md]
                    return ("init", flight, last_md)
                for (ph, fl, lm) in scripts_from(snap, start):
                    ntrans += 1
                    push(ph, fl, lm)
                continue
            # loop phase: one scheduler iteration per transition
            flight0, _ = restore(st, rig, snap)
            nfl = len(flight0)
            for j in range(nfl):
                ens = flight0[j]["ens_nums"]
                outcomes = [("REJ", None)]
                if len(ens) == 1:
                    e = ens[0]
                    if e < 0:
                        outcomes.append(("ACC", [("m", 0)]))
                    else:
                        for r in range(e + 1, P + 1):
                            outcomes.append(("ACC", [("p", r)]))
                else:
                    for r in range(1, P + 1):
                        outcomes.append(("ACC", [("m", 0), ("p", r)]))
                for status, news in outcomes:
                    def step(flight, last_md, j=j, status=status, news=news):
                        st.loop()
                        md = flight[j]
                        flight = flight[:j] + flight[j + 1:]
                        md["status"] = status
                        md["md_start"] = 0.0
                        if status == "ACC":
                            for e, (kind, r) in zip(md["ens_nums"], news):
                                md["picked"][e]["traj"] = FP(
                                    max(r, 1), intf, minus=(kind == "m"))
                        out = st.treat_output(md)
                        if st.cstep + st.workers <= st.tsteps:
                            out = st.prep_md_items(out)
                            flight = flight + [out]
                        return ("loop", flight, None)
                    for (ph, fl, lm) in scripts_from(snap, step):
                        ntrans += 1
                        push(ph, fl, lm)
            if rig.violations:
                break
    except R.AbortCase:
        pass
    except BaseException as exc:  # the real object raised
        import traceback
        rig.violate("explore-raised", f"{type(exc).__name__}: {exc}",
                    tb=traceback.format_exc()[-1500:])
    finally:
        R.Rig.current = None
        os.chdir(old)
    return rig, len(seen), ntrans, complete and not rig.violations


def plan(tier, seed):
    if tier == "quick":
        combos = [(2, 1, 60), (3, 1, 60), (3, 2, 90), (4, 1, 240), (4, 2, 90),
                  (4, 3, 90)]
    else:
        combos = [(2, 1, 120), (3, 1, 300), (3, 2, 600), (4, 1, 900),
                  (4, 2, 2400), (4, 3, 2400)]
    return [{"kind": "explore", "size": s, "workers": w, "budget": b,
             "hashseed": 0} for s, w, b in combos]


def work(job, scratch, props=()):
    rig, nstates, ntrans, complete = explore(
        job["size"], job["workers"], job["budget"],
        os.path.join(scratch, "explore"))
    res = {"n": ntrans, "sigs": [f"explore-{job['size']}-{job['workers']}-{i}"
                                 for i in range(min(nstates, 50000))],
           "events": dict(rig.events), "violations": [], "samples": [],
           "reached": dict(rig.reached), "notes": []}
    res["events"][f"explore_states_n{job['size']}_w{job['workers']}"] = nstates
    res["events"]["explore_transitions"] = ntrans
    res["events"]["explore_complete" if complete else
                  "explore_budget_exhausted"] = 1
    want = {"C03": ("locks", "shared", "inflight", "zero-weight", "picked",
                    "engine", "workdir", "ghost", "bad-zero", "unknown-job",
                    "explore-raised"),
            "C05": ("pick-raised", "prep-raised", "treat-raised", "inf-retis",
                    "P-", "sort-livelock", "idle-slot", "duplicate",
                    "path-number", "explore-raised", "no-perfect"),
            "C02": ("P-", "no-perfect")}
    pref = tuple(p for k in props for p in want.get(k, ()))
    for v in rig.violations:
        if not pref or any(v["mech"].startswith(p) or p in v["mech"]
                           for p in pref):
            v["explore"] = {"size": job["size"], "workers": job["workers"]}
            res["violations"].append(v)
    res["samples"].append({"exhaustive_exploration": {
        "ensembles": job["size"], "workers": job["workers"],
        "states": nstates, "transitions": ntrans, "fixed_point": complete}})
    res["x_states"] = nstates
    return res
