"""Exhaustive abstract-state exploration of small REPEX systems (stub)."""


def plan(tier, seed):
    return []


def work(job, scratch, props=()):
    return {"n": 0}
