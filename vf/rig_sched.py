"""In-process scheduler rig (DESIGN 2.1).

The real ``infretis.scheduler.scheduler`` runs unmodified; only
``infretis.scheduler.setup_runner`` is replaced by a factory returning a
synchronous runner and a future list whose ``as_completed()`` lets a seeded
adversary choose which in-flight job completes next.  The job is executed by
the real ``run_md`` at that moment, on a pickle round trip of the md_items (as
the process pool would do).

Monitors are objects with optional hook methods; the rig wraps the relevant
``REPEX_state`` methods once and multiplexes to the monitors of the current
run.
"""
import importlib.util  # noqa: F401
import copy
import glob
import json
import logging
import os
import pickle
import random
import shutil
import time

import numpy as np
import tomli
import tomli_w

import infretis.scheduler as isched
import infretis.setup as isetup
import infretis.core.tis as itis
import infretis.classes.repex as irepex
from infretis.classes.repex import REPEX_state

PLUGIN = os.path.join(os.path.dirname(os.path.abspath(__file__)),
                      "plugins", "lattice.py")


class StopRun(Exception):
    """Simulated kill of the main process at a step boundary."""


class AbortCase(Exception):
    """A monitor decided that continuing is pointless (e.g. livelock)."""


# --------------------------------------------------------------------------
# case directories
# --------------------------------------------------------------------------
def lattice_path_sites(ens, n_intf, lm1=None):
    """A valid initial path (list of sites) for ensemble index ens (0 = [0-])."""
    if ens == 0:
        if lm1 is not None:
            return [1, 0, 1]
        return [1, 0, -1, 0, 1]
    k = ens - 1  # [k+]
    up = list(range(0, k + 2))
    return up + up[-2::-1]


def write_lat_path(pdir, sites, vels=None, fname="init.lat", shift=0.0):
    os.makedirs(os.path.join(pdir, "accepted"), exist_ok=True)
    if vels is None:
        vels = [1] * len(sites)
    with open(os.path.join(pdir, "accepted", fname), "w") as f:
        for x, v in zip(sites, vels):
            f.write(f"{x} {v}\n")
    with open(os.path.join(pdir, "traj.txt"), "w") as f:
        f.write("# Cycle: 0, status: ACC\n")
        f.write("#     Step              Filename       index    vel\n")
        for i in range(len(sites)):
            f.write(f"{i:>10}  {fname:>20s}  {i:>10}  {1:>5}\n")
    with open(os.path.join(pdir, "order.txt"), "w") as f:
        f.write("# Cycle: 0, status: ACC, move: ('ld', 0, 0, 0)\n")
        f.write("#     Time       Orderp\n")
        for i, x in enumerate(sites):
            f.write(f"{i:>10d} {float(x) + shift:>12.6f}\n")


def make_config(spec):
    n = spec["n_intf"]
    # "shift" moves the whole order-parameter axis (interfaces, cap,
    # lambda_minus_one and the order function): lattice sites then sit off
    # the integers, e.g. lambda_minus_one = -1.5 + 1.5 = 0.0 exactly
    sh = float(spec.get("shift", 0.0))
    intf = [k + 0.5 + sh for k in range(n)]
    moves = spec.get("moves") or ["sh"] * n
    tis = {"maxlength": spec.get("maxlength", 2000),
           "allowmaxlength": bool(spec.get("allowmaxlength", False)),
           "zero_momentum": bool(spec.get("zero_momentum", False)),
           "n_jumps": spec.get("n_jumps", 2)}
    if spec.get("cap") is not None:
        tis["interface_cap"] = spec["cap"] + sh
    if spec.get("lm1") is not None:
        tis["lambda_minus_one"] = spec["lm1"] + sh
    eng = spec.get("engine", "lattice")
    if eng == "lattice":
        engine = {"class": "LatticeEngine", "module": PLUGIN,
                  "wall": spec.get("wall", -3),
                  "subcycles": spec.get("subcycles", 1), "timestep": 1.0}
    elif eng == "ballistic":
        engine = {"class": "BallisticEngine", "module": PLUGIN,
                  "lo": spec.get("wall", -3), "hi": n + 3,
                  "subcycles": 1, "timestep": 1.0}
    else:
        raise ValueError(eng)
    cfg = {
        "runner": {"workers": spec.get("workers", 1)},
        "simulation": {"interfaces": intf, "steps": spec["steps"],
                       "seed": spec.get("seed", 0), "load_dir": "load",
                       "shooting_moves": moves, "tis_set": tis},
        "engine": engine,
        "orderparameter": ({"class": "SiteOrder", "module": PLUGIN,
                            "offset": sh} if sh else
                           {"class": "SiteOrder", "module": PLUGIN}),
        "output": {"data_dir": "./", "screen": spec.get("screen", 1),
                   "pattern": False,
                   "delete_old": bool(spec.get("delete_old", False))},
    }
    if spec.get("delete_old_all"):
        cfg["output"]["delete_old_all"] = True
    if spec.get("keep_traj_fnames"):
        cfg["output"]["keep_traj_fnames"] = spec["keep_traj_fnames"]
    if spec.get("engine0"):
        # a distinct engine section for [0-] (QuanTIS-like layout)
        cfg["engine0"] = dict(engine)
        cfg["simulation"]["ensemble_engines"] = (
            [["engine0"]] + [["engine"]] * (n - 1))
    if spec.get("engines2"):
        # every ensemble lists TWO engines (the move uses the first one);
        # the second has visibly different dynamics
        e2 = dict(engine)
        if eng == "lattice" and "wf" not in moves:
            e2["subcycles"] = 2
        elif eng == "lattice":
            e2["wall"] = engine["wall"] - 1
        else:
            e2["lo"] = engine["lo"] - 1
        cfg["engine2"] = e2
        first = cfg["simulation"].get("ensemble_engines") or \
            [["engine"]] * n
        cfg["simulation"]["ensemble_engines"] = [a + ["engine2"]
                                                 for a in first]
    return cfg


REPO = os.environ.get("VERIF_REPO", "/repo")
TURTLE_EXAMPLE = os.path.join(REPO, "examples/turtlemd/double_well")


def make_turtle_config(spec):
    """The repository's own double-well example (TurtleMD, Langevin)."""
    with open(os.path.join(REPO, "test/simulations/data/wf.toml"), "rb") as f:
        cfg = tomli.load(f)
    cfg["runner"] = {"workers": spec.get("workers", 1)}
    sim = cfg["simulation"]
    sim["steps"] = spec["steps"]
    sim["seed"] = spec.get("seed", 0)
    if spec.get("moves"):
        sim["shooting_moves"] = spec["moves"]
    sim["tis_set"]["allowmaxlength"] = bool(spec.get("allowmaxlength", False))
    sim["tis_set"]["maxlength"] = spec.get("maxlength", 2000)
    sim["tis_set"]["n_jumps"] = spec.get("n_jumps", 2)
    if spec.get("subcycles"):
        cfg["engine"]["subcycles"] = int(spec["subcycles"])
    cfg["output"] = {"data_dir": "./", "screen": 1, "pattern": False,
                     "delete_old": bool(spec.get("delete_old", False))}
    if spec.get("delete_old_all"):
        cfg["output"]["delete_old_all"] = True
    if spec.get("engine0"):
        # a dedicated engine section for [0-] (multi-engine layout)
        cfg["engine0"] = dict(cfg["engine"])
        sim["ensemble_engines"] = [["engine0"]] + \
            [["engine"]] * (len(sim["interfaces"]) - 1)
    return cfg


def make_case_dir(spec, cdir):
    os.makedirs(cdir, exist_ok=True)
    if spec.get("engine") == "turtlemd":
        cfg = make_turtle_config(spec)
        with open(os.path.join(cdir, "infretis.toml"), "wb") as f:
            tomli_w.dump(cfg, f)
        shutil.copytree(os.path.join(TURTLE_EXAMPLE, "load_copy"),
                        os.path.join(cdir, "load"))
        shutil.copy(os.path.join(TURTLE_EXAMPLE, "orderp.py"), cdir)
        return cfg
    cfg = make_config(spec)
    with open(os.path.join(cdir, "infretis.toml"), "wb") as f:
        tomli_w.dump(cfg, f)
    n = spec["n_intf"]
    for ens in range(n):
        write_lat_path(os.path.join(cdir, "load", str(ens)),
                       lattice_path_sites(ens, n, spec.get("lm1")),
                       shift=float(spec.get("shift", 0.0)))
    return cfg


# --------------------------------------------------------------------------
# fake runner / futures with a completion-order adversary
# --------------------------------------------------------------------------
class FakeFuture:
    def __init__(self, blob, seq):
        self.blob = blob
        self.seq = seq
        self.out = None

    def done(self):
        return self.out is not None

    def result(self):
        return pickle.loads(self.out)


class Adversary:
    """Chooses which pending job completes next."""

    def __init__(self, policy="random", seed=0):
        self.policy = policy
        self.rng = random.Random(seed)
        self.order = []

    def choose(self, pending):
        n = len(pending)
        if n == 1:
            i = 0
        elif self.policy == "fifo":
            i = 0
        elif self.policy == "lifo":
            i = n - 1
        elif self.policy == "starve":
            # never complete the oldest job unless it is the only one
            i = self.rng.randrange(1, n)
        elif self.policy == "starve_pin":
            # the job of the highest-numbered worker completes last
            pins = [pickle.loads(p.blob)["pin"] for p in pending]
            cand = [k for k, p in enumerate(pins) if p != max(pins)]
            i = self.rng.choice(cand) if cand else 0
        else:
            i = self.rng.randrange(n)
        self.order.append(i)
        return i


class FakeRunner:
    def __init__(self, rig):
        self.rig = rig
        self.nsub = 0

    def submit_work(self, md_items):
        self.nsub += 1
        self.rig.hook("on_submit", md_items)
        return FakeFuture(pickle.dumps(md_items), self.nsub)

    def stop(self):
        self.rig.stopped = True


class FakeFutures:
    def __init__(self, rig):
        self.rig = rig
        self.pending = []
        self.completed = 0

    def add(self, fut):
        self.pending.append(fut)

    def as_completed(self):
        rig = self.rig
        if rig.kill_after is not None and self.completed >= rig.kill_after:
            raise StopRun()
        if not self.pending:
            return None
        i = rig.adversary.choose(self.pending)
        fut = self.pending.pop(i)
        md_items = pickle.loads(fut.blob)
        rig.hook("before_run_md", md_items)
        out = rig.run_md(md_items)
        rig.hook("after_run_md", out)
        fut.out = pickle.dumps(out)
        self.completed += 1
        return fut


# --------------------------------------------------------------------------
# the rig
# --------------------------------------------------------------------------
_PATCHED = {}


class Rig:
    """One case: a directory, a list of monitors, segments to run."""

    current = None

    def __init__(self, cdir, monitors=(), policy="random", adv_seed=0):
        self.cdir = cdir
        self.monitors = list(monitors)
        self.adversary = Adversary(policy, adv_seed)
        self.kill_after = None
        self.stopped = False
        self.violations = []
        self.events = {}
        self.reached = {}
        self.state = None
        self.segment = -1
        self.run_md = itis.run_md
        self.step_log = []
        self.kill_in = None
        self._kill_in_count = 0

    # -- bookkeeping -------------------------------------------------------
    def ev(self, name, k=1):
        self.events[name] = self.events.get(name, 0) + k

    def reach(self, name, k=1):
        self.reached[name] = self.reached.get(name, 0) + k

    def violate(self, mech, what, **kw):
        w = {"mech": mech, "what": what, "segment": self.segment}
        if self.state is not None:
            try:
                w["cstep"] = int(self.state.cstep)
            except Exception:
                pass
        w.update(kw)
        if len(self.violations) < 50:
            self.violations.append(w)

    def hook(self, name, *a, **kw):
        for m in self.monitors:
            f = getattr(m, name, None)
            if f is not None:
                f(self, *a, **kw)
        # simulated crash of the main process *inside* a step: after the
        # n-th occurrence of a hook point (all files written so far are
        # closed, so the directory is what a crash there leaves on disk)
        if self.kill_in and name == self.kill_in[0]:
            self._kill_in_count += 1
            if self._kill_in_count == self.kill_in[1]:
                self.ev("killed_inside_step:" + name)
                raise StopRun()

    # -- running -----------------------------------------------------------
    def run_segment(self, inp="infretis.toml", kill_after=None, kill_in=None):
        """Run the real scheduler once (one process life time).

        Returns "done", "killed", "nothing" (setup_config returned None) or
        ("error", exception).
        """
        install_patches()
        self.segment += 1
        self.kill_after = kill_after
        self.kill_in = tuple(kill_in) if kill_in else None
        self._kill_in_count = 0
        self.stopped = False
        reset_globals()
        old = os.getcwd()
        os.chdir(self.cdir)
        Rig.current = self
        try:
            config = isetup.setup_config(inp)
            if config is None:
                return "nothing"
            self.hook("on_config", config)
            try:
                isched.scheduler(config)
            except StopRun:
                self.ev("killed_at_step_boundary")
                self.hook("end_segment", killed=True)
                return "killed"
            self.hook("end_segment", killed=False)
            return "done"
        finally:
            Rig.current = None
            os.chdir(old)
            close_log_handlers()


def reset_globals():
    """Emulate a fresh process for the module/class level state of infretis."""
    REPEX_state.traj_data.clear()
    REPEX_state.config = {}
    REPEX_state.ensembles = {}
    REPEX_state.engine_occ = {}
    itis.ENGINES = {}
    close_log_handlers()


def close_log_handlers():
    lg = logging.getLogger("main")
    for h in list(lg.handlers):
        if isinstance(h, (logging.FileHandler, logging.StreamHandler)) and \
                not isinstance(h, logging.NullHandler):
            try:
                h.close()
            except Exception:
                pass
            lg.removeHandler(h)


def _fake_setup_runner(state):
    rig = Rig.current
    rig.state = state
    rig.hook("on_state", state)
    return FakeRunner(rig), FakeFutures(rig)


def install_patches():
    """Wrap the observation points once per process."""
    if _PATCHED:
        return
    _PATCHED["setup_runner"] = isched.setup_runner
    isched.setup_runner = _fake_setup_runner

    def wrap_method(name, before=None, after=None, catch=None):
        orig = getattr(REPEX_state, name)
        _PATCHED[name] = orig

        def wrapper(self, *a, **kw):
            rig = Rig.current
            if rig is None or rig.state is not self:
                return orig(self, *a, **kw)
            if before:
                rig.hook(before, self, *a, **kw)
            try:
                out = orig(self, *a, **kw)
            except (StopRun, AbortCase):
                raise
            except BaseException as exc:
                if catch:
                    rig.hook(catch, self, exc, *a, **kw)
                raise
            if after:
                rig.hook(after, self, out, *a, **kw)
            return out

        wrapper.__name__ = name
        setattr(REPEX_state, name, wrapper)

    wrap_method("prep_md_items", "before_prep", "after_prep", "prep_raised")
    wrap_method("treat_output", "before_treat", "after_treat", "treat_raised")
    wrap_method("inf_retis", None, "after_inf_retis", "inf_retis_raised")
    wrap_method("pick", "before_pick", "after_pick", "pick_raised")
    wrap_method("pick_lock", "before_pick_lock", "after_pick_lock", None)
    wrap_method("sort_trajstate", "before_sort", "after_sort", None)
    wrap_method("swap", "before_swap", None, None)
    wrap_method("write_toml", None, "after_write_toml", None)

    # the P matrix the program actually uses (cache included)
    orig_prob = REPEX_state.prob
    _PATCHED["prob"] = orig_prob

    def _prob(self):
        out = orig_prob.fget(self)
        rig = Rig.current
        if rig is not None and rig.state is self:
            rig.hook("after_prob", self, out)
        return out

    REPEX_state.prob = property(_prob)

    orig_w2p = irepex.write_to_pathens
    _PATCHED["write_to_pathens"] = orig_w2p

    def w2p(state, pn_archive):
        rig = Rig.current
        if rig is not None and rig.state is state:
            rig.hook("before_write_to_pathens", state, list(pn_archive))
        out = orig_w2p(state, pn_archive)
        if rig is not None and rig.state is state:
            rig.hook("after_write_to_pathens", state, list(pn_archive))
        return out

    irepex.write_to_pathens = w2p


# --------------------------------------------------------------------------
# helpers used by monitors
# --------------------------------------------------------------------------
def rng_ident(gen):
    """(entropy, spawn_key, state-hash) of a numpy Generator."""
    bg = gen.bit_generator
    ss = getattr(bg, "_seed_seq", None)
    ent = getattr(ss, "entropy", None)
    key = tuple(int(i) for i in getattr(ss, "spawn_key", ()))
    st = bg.state
    inner = st.get("state", {})
    h = (st.get("bit_generator"), int(inner.get("state", 0)),
         int(inner.get("inc", 0)), int(st.get("has_uint32", 0)),
         int(st.get("uinteger", 0)))
    return {"entropy": ent if ent is None else int(ent) if not
            isinstance(ent, (list, tuple)) else [int(e) for e in ent],
            "spawn_key": list(key), "state": repr(h)}


def read_restart(cdir):
    p = os.path.join(cdir, "restart.toml")
    with open(p, "rb") as f:
        return tomli.load(f)


def set_restart_steps(cdir, steps):
    cfg = read_restart(cdir)
    cfg["simulation"]["steps"] = steps
    with open(os.path.join(cdir, "restart.toml"), "wb") as f:
        tomli_w.dump(cfg, f)


def parse_data_file(path):
    """Rows of infretis_data.txt: list of dict(pn, len, maxop, frac[], w[])."""
    rows = []
    with open(path) as f:
        for line in f:
            if line.startswith("#") or not line.strip():
                continue
            s = line.split()
            pn, ln, mx = int(s[0]), int(s[1]), float(s[2])
            rest = s[3:]
            half = len(rest) // 2
            fr = [np.longdouble(0) if r == "----" else np.longdouble(r)
                  for r in rest[:half]]
            ws = [0.0 if r == "----" else float(r) for r in rest[half:]]
            rows.append({"pn": pn, "len": ln, "maxop": mx, "frac": fr,
                         "w": ws, "raw": line})
    return rows


def data_file_of(cdir):
    files = sorted(glob.glob(os.path.join(cdir, "infretis_data*.txt")))
    return files
