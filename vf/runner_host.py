"""Host process for one aiorunner stress round (real forked worker pool).

    python -m vf.runner_host spec.json out.json

Drives the real ``aiorunner`` + ``future_list`` the way scheduler() does
(submit up to n in flight, consume with as_completed, submit the next) or in
bursts, and records what came back on which future.
"""
import importlib.util  # noqa: F401
import asyncio
import json
import os
import sys
import threading
import time

LOG = None


class Boom(Exception):
    pass


def task(unit):
    """Executed in a pool process: one O_APPEND write per execution."""
    fd = os.open(unit["log"], os.O_WRONLY | os.O_APPEND | os.O_CREAT, 0o644)
    os.write(fd, f"{unit['id']} {os.getpid()}\n".encode())
    os.close(fd)
    if unit["dur"]:
        time.sleep(unit["dur"])
    if unit.get("raise"):
        raise Boom(f"unit {unit['id']}")
    return {"id": unit["id"], "payload": "x" * unit.get("payload", 0),
            "pid": os.getpid()}


def main():
    spec = json.load(open(sys.argv[1]))
    out = {"delivered": [], "errors": [], "stop": None, "notes": []}
    from infretis.asyncrunner import aiorunner, future_list
    runner = aiorunner({}, spec["workers"])
    runner.set_task(task)
    runner.start()
    futures = future_list()
    units = spec["units"]
    fut_unit = {}
    deadline = time.time() + spec.get("deadline", 90)

    def submit(u):
        f = runner.submit_work(u)
        fut_unit[id(f)] = (u["id"], f)
        futures.add(f)

    def consume():
        # like scheduler(): blocks until a future is done
        fut = futures.as_completed()
        if fut is None:
            if len(futures._futures) > 0:
                # None although units are pending: the scheduler would count
                # a step without a completed move
                out["none_while_pending"] = out.get("none_while_pending",
                                                    0) + 1
                if out["none_while_pending"] > 50:
                    return False
                return True
            return False
        uid = [k for k, (u, f) in fut_unit.items() if f is fut]
        want = fut_unit[uid[0]][0] if uid else None
        try:
            res = fut.result()
            got = res["id"]
            kind = "result"
            ok_payload = len(res["payload"])
        except Exception as exc:  # the task's exception, re-raised
            kind = "exception"
            msg = str(exc)
            got = int(msg.split()[-1]) if msg.split() and \
                msg.split()[-1].isdigit() else None
            ok_payload = type(exc).__name__
        out["delivered"].append({"future_of": want, "got": got, "kind": kind,
                                 "extra": ok_payload})
        # a consumed future must not be handed out again
        return True

    # a watchdog thread turns a hang into a recorded, classifiable outcome
    def dead_workers():
        """Task wrappers that ended although stop() was never requested."""
        dead = []
        for t in (runner._tasks or []):
            if t.done():
                try:
                    exc = t.exception()
                except BaseException as e:  # cancelled
                    exc = e
                dead.append(repr(exc))
        return dead

    def watchdog():
        while time.time() < deadline:
            time.sleep(0.2)
            if out.get("finished"):
                return
            if out.get("phase") != "stopping":
                dead = dead_workers()
                if dead and len(dead) == len(runner._tasks or []):
                    # logical, not wall-clock: nobody is left to execute
                    # the queued units
                    out["all_workers_dead"] = dead
                    out["queue_left"] = runner._queue.qsize()
                    _dump(out)
                    os._exit(4)
        out["hang"] = True
        out["dead_workers"] = dead_workers()
        _dump(out)
        os._exit(3)

    def _dump(o):
        with open(sys.argv[2] + ".tmp", "w") as f:
            json.dump(o, f)
        os.replace(sys.argv[2] + ".tmp", sys.argv[2])

    threading.Thread(target=watchdog, daemon=True).start()
    mode = spec["mode"]
    i = 0
    if mode == "scheduler":
        while i < min(spec["workers"], len(units)):
            submit(units[i])
            i += 1
        while consume():
            if i < len(units):
                submit(units[i])
                i += 1
    elif mode == "stop_early":
        # everything is submitted, then stop() is called with a backlog:
        # stop() itself must let the queue drain before it ends the workers
        for u in units:
            submit(u)
    else:  # bursts
        for burst in spec["bursts"]:
            for _ in range(burst):
                if i < len(units):
                    submit(units[i])
                    i += 1
            # drain a random part
            k = spec["drain"][len(out["delivered"]) % len(spec["drain"])]
            for _ in range(k):
                if not consume():
                    break
        while consume():
            pass
    out["dead_workers"] = dead_workers()
    out["phase"] = "stopping"
    t0 = time.time()
    try:
        runner.stop()
        out["stop"] = "returned"
    except BaseException as exc:
        out["stop"] = f"raised {type(exc).__name__}: {exc}"
    out["stop_s"] = time.time() - t0
    if mode == "stop_early":
        # never block here: a unit dropped by stop() has a future that will
        # never be done
        out["undone_after_stop"] = [u for u, f in fut_unit.values()
                                    if not f.done()]
        futures._futures = [f for f in futures._futures if f.done()]
        while consume():
            pass
    out["thread_alive"] = runner._thread.is_alive()
    out["queue_left"] = runner._queue.qsize()
    try:
        out["pending_tasks"] = len([t for t in asyncio.all_tasks(runner._loop)
                                    if not t.done()])
    except Exception as exc:
        out["pending_tasks"] = -1
    out["other_threads"] = [t.name for t in threading.enumerate()
                            if t is not threading.main_thread()]
    out["finished"] = True
    _dump(out)
    return 0


if __name__ == "__main__":
    sys.exit(main())
