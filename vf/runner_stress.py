"""C17 (runner part): exactly-once execution and delivery of the real
aiorunner/future_list with forked worker processes, under stress."""
import json
import os
import random
import subprocess
import sys
import time

HERE = os.path.dirname(os.path.dirname(os.path.abspath(__file__)))


def _round(rng, slow=False):
    w = rng.randint(1, 8)
    n = rng.randint(w, 28)
    pat = rng.choice(["zero", "equal", "straggler", "reverse", "random"])
    durs = []
    for i in range(n):
        if pat == "zero":
            d = 0.0
        elif pat == "equal":
            d = 0.01
        elif pat == "straggler":
            # submit_work() itself sleeps 0.05 s per unit: a straggler must
            # outlast the submission of its successors to be overtaken
            d = 0.05 * (w + 3) + 0.2 if i == 0 else 0.0
        elif pat == "reverse":
            d = (0.05 * (w + 2) + 0.3) * (n - i) / n
        else:
            d = rng.choice([0, 0, 0.001, 0.01, 0.05, 0.3, 0.6])
        durs.append(d)
    units = [{"id": i, "dur": durs[i], "raise": rng.random() < 0.15,
              "payload": rng.choice([0, 0, 10, 100000, 2000000])
              if rng.random() < 0.3 else 0} for i in range(n)]
    spec = {"workers": w, "units": units, "pattern": pat,
            "mode": rng.choice(["scheduler", "scheduler", "bursts"])}
    if rng.random() < 0.15:
        # stop() called while the queue still holds units for seconds
        spec["mode"], spec["pattern"] = "stop_early", "backlog"
        w = spec["workers"] = rng.randint(1, 4)
        n = rng.randint(6 * w, 8 * w)
        d = rng.choice([0.8, 1.0])
        spec["units"] = [{"id": i, "dur": d, "raise": rng.random() < 0.15,
                          "payload": 0} for i in range(n)]
    if slow or (spec["mode"] != "stop_early" and rng.random() < 0.05):
        # one unit that runs for seconds while nothing else finishes: the
        # consumer must simply wait for it
        spec["pattern"] = "slow"
        w = spec["workers"] = rng.randint(1, 2)
        units = [{"id": i, "dur": 0.0, "raise": False, "payload": 0}
                 for i in range(rng.randint(w + 1, 5))]
        units[rng.randrange(len(units))]["dur"] = rng.choice([2.6, 3.4])
        spec["units"], spec["mode"] = units, "scheduler"
    if spec["mode"] == "bursts":
        left, bursts = n, []
        while left > 0:
            b = rng.randint(1, max(1, min(left, 2 * w)))
            bursts.append(b)
            left -= b
        spec["bursts"] = bursts
        spec["drain"] = [rng.randint(0, 3) for _ in range(5)]
    return spec


def plan(tier, seed):
    rng = random.Random(f"C17r-{seed}")
    nround = 48 if tier == "quick" else 1500
    per = 3 if tier == "quick" else 12
    rounds = [_round(rng, slow=(i % 24 == 7)) for i in range(nround)]
    return [{"kind": "runner", "hashseed": 0, "rounds": rounds[i:i + per]}
            for i in range(0, nround, per)]


def _survivors(pgid):
    out = []
    for p in os.listdir("/proc"):
        if not p.isdigit():
            continue
        try:
            with open(f"/proc/{p}/stat") as f:
                s = f.read()
            rest = s[s.rindex(")") + 2:].split()
            if int(rest[2]) == pgid and rest[0] != "Z":
                out.append(int(p))
        except (OSError, ValueError):
            continue
    return out


def work(job, scratch):
    res = {"n": 0, "sigs": [], "events": {}, "violations": [], "samples": [],
           "reached": {}, "notes": [], "inconclusive": []}

    def ev(k, n=1):
        res["events"][k] = res["events"].get(k, 0) + n

    for ri, spec in enumerate(job["rounds"]):
        rdir = os.path.join(scratch, f"round{ri}")
        os.makedirs(rdir, exist_ok=True)
        log = os.path.join(rdir, "exec.log")
        for u in spec["units"]:
            u["log"] = log
        sf, of = os.path.join(rdir, "spec.json"), os.path.join(rdir, "out.json")
        json.dump(spec, open(sf, "w"))
        env = dict(os.environ)
        env["PYTHONPATH"] = os.environ.get("VERIF_REPO", "/repo") + ":" + HERE
        p = subprocess.Popen([sys.executable, "-m", "vf.runner_host", sf, of],
                             cwd=rdir, env=env, start_new_session=True,
                             stdout=subprocess.PIPE, stderr=subprocess.STDOUT)
        try:
            so, _ = p.communicate(timeout=240)
        except subprocess.TimeoutExpired:
            os.killpg(p.pid, 9)
            res["inconclusive"].append("runner host hit the 240 s watchdog")
            continue
        res["n"] += 1
        execs = {}
        if os.path.isfile(log):
            for line in open(log):
                uid = int(line.split()[0])
                execs[uid] = execs.get(uid, 0) + 1
        out = json.load(open(of)) if os.path.isfile(of) else None
        wit = {"round": {k: v for k, v in spec.items() if k != "units"},
               "n_units": len(spec["units"]),
               "raising": [u["id"] for u in spec["units"] if u["raise"]]}
        if out is None:
            res["violations"].append(dict(
                wit, mech="runner-host-died", what=f"host rc={p.returncode}: "
                + so.decode(errors="replace")[-600:]))
            continue
        ids = [u["id"] for u in spec["units"]]
        if out.get("all_workers_dead") or out.get("dead_workers"):
            dead = out.get("all_workers_dead") or out.get("dead_workers")
            res["violations"].append(dict(
                wit, mech="runner-worker-coroutine-died",
                what=f"{len(dead)} of {spec['workers']} task wrappers ended "
                     f"before stop() was requested: {dead[:2]}; "
                     f"{len(out['delivered'])} of {len(ids)} outcomes "
                     "delivered", queue_left=out.get("queue_left")))
            res["reached"]["runner_exactly_once"] = \
                res["reached"].get("runner_exactly_once", 0) + 1
            if out.get("all_workers_dead"):
                continue
        if out.get("hang"):
            allrun = all(execs.get(i, 0) >= 1 for i in ids)
            if allrun and out.get("phase") != "stopping":
                res["violations"].append(dict(
                    wit, mech="result-never-delivered",
                    what="every unit was executed but as_completed() never "
                         "returned all of them", delivered=out["delivered"]))
            elif allrun:
                res["violations"].append(dict(
                    wit, mech="stop-hangs", what="stop() did not return"))
            else:
                res["inconclusive"].append("runner round timed out before "
                                           "all units ran")
            continue
        res["reached"]["runner_exactly_once"] = \
            res["reached"].get("runner_exactly_once", 0) + 1
        ev("runner_rounds")
        ev("runner_units", len(ids))
        for i in ids:
            c = execs.get(i, 0)
            if c != 1:
                res["violations"].append(dict(
                    wit, mech="unit-executed-%s" % ("never" if c == 0
                                                    else "twice"),
                    what=f"unit {i} was executed {c} times"))
        got = {}
        for d in out["delivered"]:
            got[d["got"]] = got.get(d["got"], 0) + 1
            if d["future_of"] != d["got"]:
                res["violations"].append(dict(
                    wit, mech="delivered-to-wrong-future",
                    what=f"future of unit {d['future_of']} delivered the "
                         f"outcome of unit {d['got']}"))
            u = spec["units"][d["got"]] if d["got"] is not None and \
                d["got"] < len(spec["units"]) else None
            if u is not None:
                if bool(u["raise"]) != (d["kind"] == "exception"):
                    res["violations"].append(dict(
                        wit, mech="wrong-outcome-kind",
                        what=f"unit {d['got']} raise={u['raise']} came back "
                             f"as {d['kind']}"))
                if d["kind"] == "result" and d["extra"] != u.get("payload", 0):
                    res["violations"].append(dict(
                        wit, mech="payload-damaged",
                        what=f"unit {d['got']} payload {d['extra']} != "
                             f"{u.get('payload', 0)}"))
                ev("delivered_" + d["kind"])
        if out.get("none_while_pending"):
            res["violations"].append(dict(
                wit, mech="as-completed-gave-up-while-units-pending",
                what=f"as_completed() returned None "
                     f"{out['none_while_pending']} time(s) although units "
                     "were still pending (the scheduler would count a step "
                     "without a completed move)"))
        if out.get("undone_after_stop"):
            res["violations"].append(dict(
                wit, mech="unit-dropped-by-stop",
                what=f"stop() returned after {out.get('stop_s', 0):.1f} s "
                     f"with the futures of units {out['undone_after_stop']} "
                     "still pending"))
        if spec["mode"] == "stop_early":
            ev("stop_with_backlog_rounds")
        if spec["pattern"] == "slow":
            ev("rounds_with_a_unit_of_seconds")
        for i in ids:
            if got.get(i, 0) != 1:
                res["violations"].append(dict(
                    wit, mech="delivered-%s" % ("never" if got.get(i, 0) == 0
                                                else "twice"),
                    what=f"outcome of unit {i} delivered {got.get(i, 0)} "
                         "times"))
        if out["stop"] != "returned":
            res["violations"].append(dict(wit, mech="stop-raised",
                                          what=out["stop"]))
        if out.get("thread_alive") or out.get("queue_left") or \
                out.get("pending_tasks"):
            res["violations"].append(dict(
                wit, mech="unclean-stop", what=f"after stop(): thread_alive="
                f"{out.get('thread_alive')} queue_left={out.get('queue_left')}"
                f" pending_tasks={out.get('pending_tasks')}"))
        if p.returncode != 0:
            res["violations"].append(dict(
                wit, mech="host-exit-code", what=f"host process exit code "
                f"{p.returncode}: " + so.decode(errors="replace")[-400:]))
        time.sleep(0.2)
        surv = _survivors(p.pid)
        if surv:
            time.sleep(1.5)
            surv = _survivors(p.pid)
        if surv:
            res["violations"].append(dict(
                wit, mech="child-processes-survive",
                what=f"processes {surv} outlive the host process"))
            try:
                os.killpg(p.pid, 9)
            except OSError:
                pass
        ev("executor_threads_left_after_stop",
           len(out.get("other_threads", [])))
        # was any unit overtaken? (a later-submitted unit delivered first)
        order = [d["got"] for d in out["delivered"]]
        if any(a > b for a, b in zip(order, order[1:])):
            ev("rounds_with_out_of_order_completion")
        res["sigs"].append("runner-%s-%s-%s-%d-%d-%s" % (
            spec["workers"], spec["pattern"], spec["mode"], len(ids),
            len(wit["raising"]), tuple(u["payload"] for u in spec["units"])))
        if len(res["samples"]) < 1:
            res["samples"].append({"runner_round": wit,
                                   "delivered_first5": out["delivered"][:5]})
    return res
