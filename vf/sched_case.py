"""Run one scheduler-rig case (possibly several process life times)."""
import importlib.util  # noqa: F401
import os
import shutil
import traceback

from vf import rig_sched as R


def run_case(spec, cdir, monitors, keep=False):
    """spec['segments'] = [{'steps': N, 'kill_after': k|None}, ...].

    Returns (rig, info) ; info['outcomes'] lists the outcome per segment.
    """
    segs = spec.get("segments") or [{"steps": spec["steps"]}]
    R.make_case_dir(dict(spec, steps=segs[0]["steps"]), cdir)
    rig = R.Rig(cdir, monitors, policy=spec.get("policy", "random"),
                adv_seed=spec.get("adv_seed", 0))
    outcomes = []
    for i, seg in enumerate(segs):
        if i == 0:
            inp = "infretis.toml"
        else:
            inp = "restart.toml"
            if not os.path.isfile(os.path.join(cdir, inp)):
                outcomes.append("no-restart-file")
                break
            R.set_restart_steps(cdir, seg["steps"])
        try:
            out = rig.run_segment(inp, kill_after=seg.get("kill_after"),
                                  kill_in=seg.get("kill_in"))
        except R.AbortCase as exc:
            out = "aborted: " + str(exc)
        except BaseException as exc:
            out = "error"
            rig.violate("scheduler-raised",
                        f"segment {i} raised {type(exc).__name__}: {exc}",
                        tb=traceback.format_exc()[-1800:])
        outcomes.append(out)
        rig.hook("after_segment", i, out)
        if out not in ("done", "killed"):
            break
    info = {"outcomes": outcomes, "order": rig.adversary.order[:200]}
    return rig, info
