"""One process life time of a scheduler-rig case, in a fresh interpreter.

    python -m vf.sched_sub <spec.json> <case-dir> <first|resume> <steps>

`first` creates the case directory and runs `steps` steps from infretis.toml;
`resume` continues an existing directory from restart.toml up to `steps`.
Used where the process itself matters (PYTHONHASHSEED, module state).
Prints one JSON line {"outcome": ...}.
"""
import importlib.util  # noqa: F401
import json
import os
import sys
import traceback


def main():
    spec = json.load(open(sys.argv[1]))
    cdir, mode, steps = sys.argv[2], sys.argv[3], int(sys.argv[4])
    from vf import rig_sched as R
    out = {"outcome": None}
    try:
        if mode == "first":
            R.make_case_dir(dict(spec, steps=steps), cdir)
            inp = "infretis.toml"
        else:
            R.set_restart_steps(cdir, steps)
            inp = "restart.toml"
        rig = R.Rig(cdir, [], policy=spec.get("policy", "fifo"),
                    adv_seed=spec.get("adv_seed", 0))
        out["outcome"] = rig.run_segment(inp)
        out["violations"] = rig.violations[:5]
    except BaseException as exc:
        out["outcome"] = "error"
        out["error"] = f"{type(exc).__name__}: {exc}"
        out["tb"] = traceback.format_exc()[-1500:]
    sys.stdout.write("\n" + json.dumps(out, default=str) + "\n")
    sys.stdout.flush()
    os._exit(0)


if __name__ == "__main__":
    main()
