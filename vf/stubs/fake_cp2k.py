#!/venv/bin/python
"""Stub CP2K: `fake_cp2k.py -i run.inp` (cwd = exe_dir).

Parses the sectioned input infretis wrote (GLOBAL/PROJECT, MOTION/MD STEPS and
TIMESTEP, MOTION/PRINT/TRAJECTORY/EACH MD, SUBSYS/TOPOLOGY COORD_FILE_NAME,
SUBSYS/VELOCITY lines in bohr/au_t), reads the coordinate file (Angstrom),
integrates and writes `<proj>-pos-1.xyz` (Angstrom), `<proj>-vel-1.xyz`
(atomic units) every EACH steps starting with step 0, and `<proj>-1.ener`
(one line per MD step) according to the write schedule.  The velocity file
may trail the position file (plan "lag").
"""
import os
import sys

sys.path.insert(0, os.path.dirname(os.path.abspath(__file__)))
import stublib as sl  # noqa: E402


def parse_input(path):
    """-> {"A->B->C": [data lines]} of a CP2K input."""
    stack, out = [], {}
    with open(path) as f:
        for raw in f:
            line = raw.split("#")[0].split("!")[0].strip()
            if not line:
                continue
            if line.upper().startswith("&END"):
                stack.pop()
            elif line.startswith("&"):
                stack.append(line[1:].split()[0].upper())
                out.setdefault("->".join(stack), [])
            else:
                out.setdefault("->".join(stack), []).append(line)
    return out


def key(sec, name, default=None):
    for line in sec or []:
        t = line.split()
        if t and t[0].upper() == name:
            return t[1] if len(t) > 1 else default
    return default


def main():
    args = sys.argv[1:]
    inp = parse_input(args[args.index("-i") + 1])
    plan = sl.load_plan()
    name = key(inp.get("GLOBAL"), "PROJECT", "cp2k")
    nsteps = int(key(inp.get("MOTION->MD"), "STEPS"))
    dt = float(key(inp.get("MOTION->MD"), "TIMESTEP"))
    each = int(key(inp.get("MOTION->PRINT->TRAJECTORY->EACH"), "MD", 1))
    each_v = int(key(inp.get("MOTION->PRINT->VELOCITIES->EACH"), "MD", each))
    coord = key(inp.get("FORCE_EVAL->SUBSYS->TOPOLOGY"), "COORD_FILE_NAME")
    names, x0, _, _ = sl.read_xyz_frame(coord, 0)
    v0 = [[float(c) for c in line.split()[:3]]
          for line in inp.get("FORCE_EVAL->SUBSYS->VELOCITY", [])]
    if len(v0) != len(x0):
        sys.stderr.write("VELOCITY section does not match the coordinates\n")
        sys.exit(3)
    nframes = nsteps // each + 1
    model = plan.get("model")
    traj = sl.trajectory(x0, v0, dt, each, nframes, model, sl.VCONV["cp2k"])
    posf, velf, ener = [], [], []
    for k, (x, v) in enumerate(traj):
        ek, ep = sl.energies(x, v, model)
        posf.append(sl.cp2k_xyz_frame(k * each, k * each * dt, names, x,
                                      ek + ep).encode())
        if k % max(1, each_v // each) == 0:
            velf.append(sl.cp2k_xyz_frame(k * each, k * each * dt, names, v,
                                          ek + ep).encode())
        rows = ""
        for s in range(each if k + 1 < nframes else 1):
            rows += "%10d %16.6f %20.9f %20.9f %20.9f %20.9f %20.9f\n" % (
                k * each + s, (k * each + s) * dt, ek, 300.0, ep, ek + ep, 0.0)
        ener.append(rows.encode())
    head = ("#     Step Nr.          Time[fs]        Kin.[a.u.]          "
            "Temp[K]            Pot.[a.u.]        Cons Qty[a.u.]        "
            "UsedTime[s]\n").encode()
    pos = sl.Stream(f"{name}-pos-1.xyz", posf)
    vel = sl.Stream(f"{name}-vel-1.xyz", velf, lagged=True)
    ene = sl.Stream(f"{name}-1.ener", [head + ener[0]] + ener[1:], lagged=True)
    truth = {"prog": "cp2k", "x0": x0, "v0": v0, "dt": dt, "nsub": each,
             "nsteps": nsteps, "nframes": nframes, "name": name,
             "coord": coord}
    sl.run_emitter(plan, [pos, vel, ene], nframes, None, None, truth)


if __name__ == "__main__":
    main()
