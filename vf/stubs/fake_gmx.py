#!/venv/bin/python
"""Stub GROMACS: `fake_gmx.py grompp|mdrun|energy ...`.

grompp  -f x.mdp -c conf.g96 -p topol.top -o name.tpr [-n idx] [-maxwarn n]
        writes name.tpr (JSON: positions, velocities, box of the .g96 file,
        dt / nsteps / nstxout / nstvout of the .mdp) and mdout.mdp.
mdrun   [...] -s name.tpr -deffnm name -c name.g96
        integrates and writes name.trr (frames every nstxout steps, frame 0 =
        initial configuration; byte order / precision from the plan) and
        name.edr (text: one energy line per frame) according to the write
        schedule; name.log; on normal completion name.g96.  gen_vel = yes and
        nsteps = 0 (velocity generation) is served without a schedule.
energy  -f name.edr   (term names on stdin) writes energy.xvg.
Only mdrun obeys the write schedule / baton; grompp and energy run freely
(the engine waits for them with communicate()).
"""
import json
import os
import random
import sys

sys.path.insert(0, os.path.dirname(os.path.abspath(__file__)))
import stublib as sl  # noqa: E402


def opt(args, flag, default=None):
    return args[args.index(flag) + 1] if flag in args else default


def grompp(args):
    mdp = {}
    with open(opt(args, "-f")) as f:
        for line in f:
            line = line.split(";")[0]
            if "=" in line:
                k, v = line.split("=", 1)
                mdp[k.strip().replace("-", "_")] = v.strip()
    x, v, box = sl.read_g96(opt(args, "-c"))
    if not os.path.isfile(opt(args, "-p")):
        sys.stderr.write("topology missing\n")
        sys.exit(1)
    tpr = {"x": x, "v": v, "box": box, "dt": float(mdp.get("dt", 0.001)),
           "nsteps": int(mdp.get("nsteps", 0)),
           "nstxout": int(mdp.get("nstxout", 0)),
           "nstvout": int(mdp.get("nstvout", 0)),
           "gen_vel": mdp.get("gen_vel", "no"),
           "gen_temp": float(mdp.get("gen_temp", 300.0))}
    with open(opt(args, "-o", "topol.tpr"), "w") as f:
        json.dump(tpr, f)
    with open("mdout.mdp", "w") as f:
        f.write("; stub\n")


def mdrun(args):
    with open(opt(args, "-s")) as f:
        tpr = json.load(f)
    name = opt(args, "-deffnm", "md")
    confout = opt(args, "-c", name + ".g96")
    plan = sl.load_plan()
    x0, v0, box = tpr["x"], tpr["v"], tpr["box"]
    box9 = list(box) + [0.0] * (9 - len(box))
    nsub = tpr["nstxout"] or 1
    if tpr["gen_vel"].lower() == "yes":
        rnd = random.Random(os.getpid())
        v0 = [[rnd.gauss(0.0, 1.0) for _ in range(3)] for _ in x0]
        plan = {}
    nframes = tpr["nsteps"] // nsub + 1
    model = plan.get("model")
    traj = sl.trajectory(x0, v0, tpr["dt"], nsub, nframes, model,
                         sl.VCONV["gmx"])
    trr = plan.get("trr") or {}
    frames, edr = [], []
    for k, (x, v) in enumerate(traj):
        b = sl.box_of_frame(k, box9[:3], plan)
        b9 = [b[0], 0.0, 0.0, 0.0, b[1], 0.0, 0.0, 0.0, b[2]]
        frames.append(sl.trr_frame(k * nsub, k * nsub * tpr["dt"], x,
                                   v if tpr["nstvout"] else None, b9,
                                   trr.get("endian", ">"),
                                   bool(trr.get("double", False))))
        ek, ep = sl.energies(x, v, model)
        edr.append(("%.9g %.12g %.12g\n" % (k * nsub * tpr["dt"], ep,
                                           ek)).encode())
    log = open(name + ".log", "w")
    log.write("GROMACS stub mdrun\n")
    log.flush()
    streams = [sl.Stream(name + ".trr", frames),
               sl.Stream(name + ".edr", edr)]

    def finish():
        x, v = traj[-1]
        with open(confout, "w") as f:
            f.write(sl.g96_conf(x, v, box9 if len(box) == 9 else box9[:3]))
        log.write("Finished mdrun\n")
        log.close()

    truth = {"prog": "gmx", "x0": x0, "v0": v0, "box0": box9[:3],
             "dt": tpr["dt"], "nsub": nsub, "nsteps": tpr["nsteps"],
             "nframes": nframes, "name": name}
    sl.run_emitter(plan, streams, nframes, None, finish, truth)


def energy(args):
    terms = sys.stdin.read().split()
    rows = []
    with open(opt(args, "-f")) as f:
        for line in f:
            t = line.split()
            if len(t) == 3 and line.endswith("\n"):
                rows.append([float(c) for c in t])
    legend = {"Potential": ("Potential", 1), "Kinetic-En.": ("Kinetic En.", 2)}
    cols = [legend[t] for t in terms if t in legend]
    with open("energy.xvg", "w") as f:
        f.write("# stub gmx energy\n@    title \"GROMACS Energies\"\n")
        f.write("@ legend on\n")
        for i, (lab, _) in enumerate(cols):
            f.write(f"@ s{i} legend \"{lab}\"\n")
        for r in rows:
            f.write("%12.6f" % r[0] + "".join("  %.10g" % r[c]
                                              for _, c in cols) + "\n")


def main():
    args = sys.argv[1:]
    for i, a in enumerate(args):
        if a in ("grompp", "mdrun", "energy"):
            return {"grompp": grompp, "mdrun": mdrun,
                    "energy": energy}[a](args[i + 1:])
    sys.stderr.write("fake_gmx: no known subcommand\n")
    sys.exit(2)


if __name__ == "__main__":
    main()
