#!/venv/bin/python
"""Stub LAMMPS: `fake_lmp.py -i run.inp` (cwd = exe_dir).

Reads the `variable <name> index <value>` lines infretis substituted into the
input, reads the initial configuration (single-frame dump `id type x y z vx vy
vz` with box bounds), integrates (stublib.trajectory) and writes
`<name>.lammpstrj` (custom dump `id type x y z vx vy vz id`, one frame every
`subcycles` steps, frame 0 = initial configuration) according to the write
schedule, plus `log.lammps` progressively (thermo header, one line per frame,
`Loop time` trailer on normal completion only).
"""
import os
import sys

sys.path.insert(0, os.path.dirname(os.path.abspath(__file__)))
import stublib as sl  # noqa: E402


def read_conf(path):
    with open(path) as f:
        lines = [ln for ln in f.read().split("\n")]
    n = int(lines[3])
    box = [[float(t) for t in lines[5 + j].split()[:2]] for j in range(3)]
    rows = {}
    for j in range(n):
        t = lines[9 + j].split()
        rows[int(t[0])] = [float(c) for c in t[2:8]]
    ids = sorted(rows)
    return [rows[i][:3] for i in ids], [rows[i][3:] for i in ids], box


def main():
    args = sys.argv[1:]
    inp = args[args.index("-i") + 1]
    var = {}
    with open(inp) as f:
        for line in f:
            t = line.split()
            if len(t) >= 4 and t[0] == "variable" and t[2] == "index":
                var[t[1]] = t[3]
    plan = sl.load_plan()
    log = open("log.lammps", "w")
    log.write("LAMMPS (stub)\nReading data file ...\n")
    log.flush()
    nsub = int(var["subcycles"])
    nsteps = int(var["nsteps"])
    dt = float(var["timestep"])
    name = var["name"]
    x0, v0, box0 = read_conf(var["initconf"])
    nframes = nsteps // nsub + 1
    model = plan.get("model")
    traj = sl.trajectory(x0, v0, dt, nsub, nframes, model, sl.VCONV["lmp"])
    fmt = plan.get("fmt", "%.17g")
    frames = []
    n = len(x0)
    for k, (x, v) in enumerate(traj):
        order = list(range(n))
        if plan.get("shuffle"):
            order = order[k % n:] + order[:k % n]
        frames.append(sl.lammps_frame(k * nsub, x, v,
                                      sl.box_of_frame(k, box0, plan), fmt,
                                      order).encode())
    stream = sl.Stream(f"{name}.lammpstrj", frames)
    state = {"logged": 0}

    def side(nfull, first):
        if first:
            log.write("Setting up Verlet run ...\n"
                      "   Step         KinEng         PotEng         TotEng"
                      "          Temp\n")
        while state["logged"] < nfull:
            k = state["logged"]
            ek, ep = sl.energies(traj[k][0], traj[k][1], model)
            log.write("%10d %14.8g %14.8g %14.8g %14.8g\n" % (
                k * nsub, ek, ep, ek + ep, 300.0))
            state["logged"] += 1
        log.flush()

    def finish():
        log.write("Loop time of 0.01 on 1 procs for %d steps with %d atoms\n"
                  % (nsteps, n))
        log.write("Total wall time: 0:00:00\n")
        log.close()

    truth = {"prog": "lmp", "x0": x0, "v0": v0, "box0": box0, "dt": dt,
             "nsub": nsub, "nsteps": nsteps, "nframes": nframes, "name": name,
             "vars": var}
    sl.run_emitter(plan, [stream], nframes, side, finish, truth)


if __name__ == "__main__":
    main()
