"""Shared code of the stub MD programs fake_lmp / fake_cp2k / fake_gmx.

Pure Python (no numpy: the stubs are started hundreds of times per check).
Nothing here is taken from /repo: the file formats are typed in from the
format definitions (LAMMPS custom dump, CP2K xyz/.ener, GROMACS TRR/g96/xvg).
The harness (vf/checks/c12.py) imports the same module to know every frame a
stub writes: the dynamics is free flight or a harmonic bond integrated with
velocity Verlet, both deterministic and time reversible.

Write schedule = data.  The JSON file named by $VF_STUB_PLAN holds

  mode        "baton" | "free"
  run_dir     directory with the baton FIFOs (tok, ack); truth.json goes there
  delays      free mode: seconds slept before each step (cycled)
  pre_idle    steps consumed before any output file is created
  sched       [a1, a2, ...] written position after each step, in FRAMES; a
              fractional part cuts inside a frame (fraction of its bytes)
  burst       [n1, n2, ...] frames per step once sched is exhausted (cycled)
  lag         CP2K: how far (frames) the velocity file trails the position
              file after each step (cycled)
  boxes       per-frame box for frames 1.. (cycled; frame 0 keeps the input box)
  model       {"kind": "free"} | {"kind": "bond", "kappa": k/m, "r0": r0}
  fmt         number format of text outputs
  shuffle     LAMMPS: atom lines in varying id order
  trr         {"endian": ">"|"<", "double": bool}
  linger      idle steps between the last frame and exit 0
  fast_exit   write the last frames and exit 0 within one step
  child       keep a helper process in the same process group (like MPI ranks)
  fault       null | {"at": a, "how": "exit"|"signal", "code": c, "sig": s,
              "nofile": bool}: stop writing at position a; on the next step
              die (nofile: die before any output file was created).

One step = one token in baton mode (the harness hands it from the engine's own
sleep() call and waits for the ack or for the death of the stub).
"""
import json
import math
import os
import signal
import struct
import sys
import time

BOHR_ANG = 0.529177210903          # CODATA 2018
AUT_FS = 0.024188843265857
VCONV = {"lmp": 1.0, "gmx": 1.0, "cp2k": BOHR_ANG / AUT_FS}


def load_plan():
    path = os.environ.get("VF_STUB_PLAN")
    if path and os.path.isfile(path):
        with open(path) as f:
            return json.load(f)
    return {}


# --------------------------------------------------------------------------
# dynamics
# --------------------------------------------------------------------------
def accel(x, model):
    if not model or model.get("kind", "free") == "free" or len(x) < 2:
        return [[0.0, 0.0, 0.0] for _ in x]
    d = [x[1][i] - x[0][i] for i in range(3)]
    r = math.sqrt(sum(c * c for c in d))
    f = -model["kappa"] * (r - model["r0"]) / r
    out = [[0.0, 0.0, 0.0] for _ in x]
    out[1] = [f * c for c in d]
    out[0] = [-f * c for c in d]
    return out


def trajectory(x0, v0, dt, nsub, nframes, model=None, vconv=1.0):
    """Frames 0..nframes-1 as (x, v); frame k is k*nsub velocity-Verlet steps
    from (x0, v0).  v in program velocity units, x += v*vconv*dt."""
    x = [list(r) for r in x0]
    u = [[c * vconv for c in r] for r in v0]
    a = accel(x, model)
    out = [([list(r) for r in x], [list(r) for r in v0])]
    for _ in range(nframes - 1):
        for _ in range(nsub):
            for i in range(len(x)):
                for c in range(3):
                    u[i][c] += 0.5 * dt * a[i][c]
                    x[i][c] += dt * u[i][c]
            a = accel(x, model)
            for i in range(len(x)):
                for c in range(3):
                    u[i][c] += 0.5 * dt * a[i][c]
        out.append(([list(r) for r in x],
                    [[c / vconv for c in r] for r in u]))
    return out


def energies(x, v, model):
    ekin = 0.5 * sum(c * c for r in v for c in r)
    epot = 0.0
    if model and model.get("kind") == "bond" and len(x) > 1:
        r = math.sqrt(sum((x[1][i] - x[0][i]) ** 2 for i in range(3)))
        epot = 0.5 * model["kappa"] * (r - model["r0"]) ** 2
    return ekin, epot


def box_of_frame(k, box0, plan):
    boxes = plan.get("boxes")
    if k == 0 or not boxes:
        return box0
    return boxes[(k - 1) % len(boxes)]


# --------------------------------------------------------------------------
# formats: LAMMPS
# --------------------------------------------------------------------------
def lammps_frame(step, x, v, box, fmt="%.17g", order=None, trailing_id=True):
    """box = [[lo, hi]] * 3."""
    n = len(x)
    s = "ITEM: TIMESTEP\n%d\nITEM: NUMBER OF ATOMS\n%d\n" % (step, n)
    s += "ITEM: BOX BOUNDS pp pp pp\n"
    for lo, hi in box:
        s += (fmt + " " + fmt + "\n") % (lo, hi)
    s += "ITEM: ATOMS id type x y z vx vy vz" + (" id" if trailing_id else "")
    s += "\n"
    for i in (order or range(n)):
        s += "%d 1 " % (i + 1)
        s += " ".join(fmt % c for c in list(x[i]) + list(v[i]))
        s += (" %d\n" % (i + 1)) if trailing_id else "\n"
    return s


def read_lammps_frame(path, idx):
    """Independent reader: frame idx -> (x, v, box[[lo,hi]]*3), atoms by id."""
    with open(path) as f:
        lines = f.read().split("\n")
    k, fr = 0, -1
    while k < len(lines):
        if lines[k].startswith("ITEM: TIMESTEP"):
            fr += 1
            n = int(lines[k + 3])
            if fr == idx:
                box = [[float(t) for t in lines[k + 5 + j].split()[:2]]
                       for j in range(3)]
                rows = {}
                for j in range(n):
                    t = lines[k + 9 + j].split()
                    rows[int(t[0])] = [float(c) for c in t[2:8]]
                ids = sorted(rows)
                return ([rows[i][:3] for i in ids], [rows[i][3:] for i in ids],
                        box)
            k += 9 + n
        else:
            k += 1
    raise IndexError(f"frame {idx} not in {path}")


# --------------------------------------------------------------------------
# formats: xyz (CP2K output files, infretis xyz trajectories)
# --------------------------------------------------------------------------
def cp2k_xyz_frame(step, t, names, rows, energy=0.0):
    s = "%8d\n i = %8d, time = %12.3f, E = %20.10f\n" % (
        len(rows), step, t, energy)
    for nm, r in zip(names, rows):
        s += "%3s %20.10f%20.10f%20.10f\n" % (nm, r[0], r[1], r[2])
    return s


def xyz_conf(names, x, v, box=None, comment=None):
    """A configuration with positions and velocities on one line per atom
    (the layout infretis uses for xyz phase points)."""
    s = "%d\n" % len(x)
    if comment is not None:
        s += comment + "\n"
    elif box is not None:
        s += "# Box: " + " ".join("%.4f" % b for b in box) + "\n"
    else:
        s += "# no box\n"
    for nm, r, w in zip(names, x, v):
        s += "%-5s" % nm + "".join(" %.12f" % c for c in list(r) + list(w))
        s += "\n"
    return s


def read_xyz_frame(path, idx):
    """-> (names, x, v or None, box or None) of frame idx."""
    with open(path) as f:
        lines = f.read().split("\n")
    k, fr = 0, 0
    while k < len(lines) and lines[k].strip():
        n = int(lines[k].split()[0])
        if fr == idx:
            head = lines[k + 1]
            box = None
            if "box:" in head.lower():
                box = [float(t) for t in
                       head.lower().split("box:")[1].split()]
            names, x, v = [], [], []
            for j in range(n):
                t = lines[k + 2 + j].split()
                names.append(t[0])
                x.append([float(c) for c in t[1:4]])
                v.append([float(c) for c in t[4:7]] if len(t) >= 7 else None)
            return names, x, (v if all(w is not None for w in v) else None), box
        k += n + 2
        fr += 1
    raise IndexError(f"frame {idx} not in {path}")


# --------------------------------------------------------------------------
# formats: GROMACS
# --------------------------------------------------------------------------
def trr_frame(step, t, x, v, box9, endian=">", double=False, lam=0.0):
    n = len(x)
    p, r = (8, "d") if double else (4, "f")
    sizes = [0, 0, 9 * p, 0, 0, 0, 0, 3 * n * p, 3 * n * p if v else 0, 0,
             n, step, 0]
    b = struct.pack(endian + "i", 1993)
    b += struct.pack(endian + "2i", 13, 12) + b"GMX_trn_file"
    b += struct.pack(endian + "13i", *sizes)
    b += struct.pack(endian + "2" + r, t, lam)
    b += struct.pack(endian + "9" + r, *box9)
    b += struct.pack(endian + f"{3 * n}" + r, *[c for row in x for c in row])
    if v:
        b += struct.pack(endian + f"{3 * n}" + r,
                         *[c for row in v for c in row])
    return b


def trr_header_size(double):
    return 4 + 8 + 12 + 52 + (16 if double else 8)


def read_trr_frame(path, idx):
    """Independent TRR reader -> (x, v or None, box9, step)."""
    with open(path, "rb") as f:
        blob = f.read()
    off, fr = 0, 0
    while off < len(blob):
        magic = struct.unpack(">i", blob[off:off + 4])[0]
        e = ">" if magic == 1993 else "<"
        if struct.unpack(e + "i", blob[off:off + 4])[0] != 1993:
            raise ValueError("bad magic")
        off += 4 + 8 + 12
        sz = struct.unpack(e + "13i", blob[off:off + 52])
        off += 52
        n = sz[10]
        p = sz[2] // 9 if sz[2] else sz[7] // (3 * n)
        r = "d" if p == 8 else "f"
        off += 2 * p

        def take(cnt):
            nonlocal off
            vals = struct.unpack(e + f"{cnt}" + r, blob[off:off + cnt * p])
            off += cnt * p
            return list(vals)
        box = take(9) if sz[2] else None
        for s in sz[3:5]:
            off += s
        x = take(3 * n)
        v = take(3 * n) if sz[8] else None
        off += sz[9]
        if fr == idx:
            rows = [x[3 * i:3 * i + 3] for i in range(n)]
            vrows = [v[3 * i:3 * i + 3] for i in range(n)] if v else None
            return rows, vrows, box, sz[11]
        fr += 1
    raise IndexError(f"frame {idx} not in {path}")


def g96_conf(x, v, box, title="stub"):
    s = "TITLE\n%s\nEND\nPOSITION\n" % title
    for i, r in enumerate(x):
        s += "%5d %-5s %-5s%7d%15.9f%15.9f%15.9f\n" % (1, "H1", "H1", i + 1,
                                                      r[0], r[1], r[2])
    s += "END\nVELOCITY\n"
    for i, r in enumerate(v):
        s += "%5d %-5s %-5s%7d%15.9f%15.9f%15.9f\n" % (1, "H1", "H1", i + 1,
                                                      r[0], r[1], r[2])
    s += "END\nBOX\n" + "".join("%15.9f" % b for b in box) + "\nEND\n"
    return s


def read_g96(path):
    sec, out = None, {"POSITION": [], "VELOCITY": [], "BOX": []}
    with open(path) as f:
        for line in f:
            t = line.strip()
            if t in ("TITLE", "POSITION", "VELOCITY", "BOX", "POSITIONRED",
                     "VELOCITYRED"):
                sec = t.replace("RED", "")
                red = t.endswith("RED")
                continue
            if t == "END":
                sec = None
                continue
            if sec in ("POSITION", "VELOCITY"):
                body = line.rstrip("\n") if red else line.rstrip("\n")[24:]
                out[sec].append([float(body[i:i + 15])
                                 for i in range(0, 45, 15)])
            elif sec == "BOX":
                out["BOX"] = [float(c) for c in t.split()]
    x = out["POSITION"]
    v = out["VELOCITY"] or [[0.0] * 3 for _ in x]
    return x, v, out["BOX"]


# --------------------------------------------------------------------------
# the clock (baton / free running) and the emitter
# --------------------------------------------------------------------------
class Clock:
    def __init__(self, plan):
        self.baton = plan.get("mode") == "baton"
        self.step = 0
        self.delays = plan.get("delays") or [0.001]
        if self.baton:
            d = plan["run_dir"]
            self.tok = os.open(os.path.join(d, "tok"), os.O_RDONLY)
            self.ack = os.open(os.path.join(d, "ack"), os.O_WRONLY)

    def fds(self):
        return [self.tok, self.ack] if self.baton else []

    def wait(self):
        if self.baton:
            if not os.read(self.tok, 1):   # harness gone
                os._exit(98)
        else:
            time.sleep(self.delays[self.step % len(self.delays)])

    def done(self, pos):
        self.step += 1
        if self.baton:
            os.write(self.ack, struct.pack("<dq", float(pos), self.step))


class Stream:
    """One output file fed frame by frame; written up to a byte offset."""

    def __init__(self, path, frames, lagged=False):
        self.path, self.lagged = path, lagged
        self.data = b"".join(frames)
        self.cum = [0]
        for fr in frames:
            self.cum.append(self.cum[-1] + len(fr))
        self.fh, self.written = None, 0

    def offset(self, a):
        k = int(math.floor(a))
        if k >= len(self.cum) - 1:
            return self.cum[-1]
        size = self.cum[k + 1] - self.cum[k]
        frac = a - k
        if frac <= 0:
            return self.cum[k]
        return self.cum[k] + min(size - 1, max(1, int(round(frac * size))))

    def create(self):
        if self.fh is None:
            self.fh = open(self.path, "wb")

    def write_to(self, a):
        off = self.offset(a)
        if off > self.written:
            self.fh.write(self.data[self.written:off])
            self.fh.flush()
            self.written = off

    def written_frames(self):
        k = 0
        while k + 1 < len(self.cum) and self.cum[k + 1] <= self.written:
            k += 1
        return k


def run_emitter(plan, streams, nframes, side=None, finish=None, truth=None):
    """Drive the write schedule. side(nfull) is called after each step with the
    number of complete frames on disk; finish() writes trailers before exit 0."""
    signal.alarm(int(plan.get("self_destruct", 300)))
    clock = Clock(plan)
    if truth is not None and plan.get("run_dir"):
        with open(os.path.join(plan["run_dir"], "truth.json"), "w") as f:
            json.dump(truth, f)
    child = None
    if plan.get("child"):
        child = os.fork()
        if child == 0:
            for fd in clock.fds():
                os.close(fd)
            time.sleep(float(plan.get("child_life", 45)))
            os._exit(0)

    def reap_child():
        if child:
            try:
                os.kill(child, signal.SIGKILL)
                os.waitpid(child, 0)
            except OSError:
                pass

    def die(fault, pos=0.0):
        for s in streams:
            if s.fh:
                if fault["how"] == "exit" and int(fault.get("code", 1)) == 0:
                    s.write_to(pos)      # a clean early exit leaves the
                s.fh.close()             # files consistent with each other
        reap_child()
        sys.stdout.flush()
        if fault["how"] == "signal":
            signal.alarm(0)
            signal.signal(fault["sig"], signal.SIG_DFL)
            os.kill(os.getpid(), fault["sig"])
            time.sleep(5)
        os._exit(int(fault.get("code", 1)))

    fault = plan.get("fault")
    limit = float(fault["at"]) if fault else float(nframes)
    limit = min(limit, float(nframes))
    for _ in range(int(plan.get("pre_idle", 0))):
        clock.wait()
        clock.done(0.0)
    if fault and fault.get("nofile"):
        clock.wait()
        die(fault)
    sched = list(plan.get("sched") or [])
    burst = plan.get("burst") or [1]
    lag = plan.get("lag") or [0]
    pos, nb, created = 0.0, 0, False
    while True:
        clock.wait()
        if not created:
            for s in streams:
                s.create()
            created = True
            if side:
                side(0, True)
            if plan.get("create_step"):
                clock.done(0.0)
                continue
        if pos >= limit:
            if fault:
                die(fault, pos)
            break
        if sched:
            target = max(pos, float(sched.pop(0)))
        else:
            target = math.floor(pos) + burst[nb % len(burst)]
            nb += 1
        target = min(target, limit)
        lg = 0.0 if target >= nframes else float(lag[clock.step % len(lag)])
        for s in streams:
            s.write_to(max(0.0, target - lg) if s.lagged else target)
        pos = target
        if side:
            side(int(math.floor(min(s.written_frames() for s in streams))),
                 False)
        if plan.get("fast_exit") and not fault and pos >= nframes:
            break        # a fast program: last write and exit in one step
        clock.done(pos)
    for _ in range(0 if plan.get("fast_exit") else
                   int(plan.get("linger", 0))):
        clock.done(pos)
        clock.wait()
    if finish:
        finish()
    for s in streams:
        s.fh.close()
    reap_child()
    os._exit(0)
