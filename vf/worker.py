"""Fresh-interpreter worker: python -m vf.worker <module> <job.json> <out.json> <scratch>."""
import importlib.util  # noqa: F401
import importlib
import json
import os
import sys
import traceback


def main():
    mod_name, jf, of, scratch = sys.argv[1:5]
    with open(jf) as f:
        job = json.load(f)
    mod = importlib.import_module(mod_name)
    try:
        res = mod.work(job, scratch)
    except BaseException:  # a harness failure is reported, never a verdict
        res = {"n": 0, "inconclusive": [
            "worker crashed: " + traceback.format_exc()[-3000:]]}
    tmp = of + ".tmp"
    with open(tmp, "w") as f:
        json.dump(res, f, default=str)
    os.replace(tmp, of)


if __name__ == "__main__":
    main()
